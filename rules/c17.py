"""C17 — S3 listing and download (necessary conditions; server-facing fidelity is not decided)."""
from nx import sym, loops, listalg, panics
from nx.spec import *
from rules import common

LEVEL = "other"
A = "nexrad_data::aws::"
LO = A + "s3::list_objects::list_objects"
DO = A + "s3::download_object::download_object"
GLM = A + "s3::download_object::get_last_modified_header"
LF = A + "archive::list_files::list_files"
DF = A + "archive::download_file::download_file"
LC = A + "realtime::list_chunks_in_volume::list_chunks_in_volume"
DC = A + "realtime::download_chunk::download_chunk"
AID = A + "archive::identifier::Identifier"
CI = A + "realtime::chunk_identifier::ChunkIdentifier"
CHUNK_NEW = "nexrad_data::aws::realtime::chunk::Chunk::<'_>::new"
ARCHIVE, REALTIME = "noaa-nexrad-level2", "unidata-nexrad-level2-chunks"
AWSE = "nexrad_data::result::aws::AWSError"
W = "nxwitness::terms::"


def call(name, *args):
    return ("call", name, tuple(args))


def find(t, pred, out=None):
    out = [] if out is None else out
    if isinstance(t, tuple):
        if t and pred(t):
            out.append(t)
        for x in t:
            find(x, pred, out)
    return out


def body_of(prog, path, opaque):
    f = prog.fn(path + "::{closure#0}")
    if f is None:
        return None, None, None
    ups = [u["name"] for u in f.j["upvars"]]
    ev = sym.Evaluator(prog, opaque_local=opaque)
    t = ev.eval_fn(f, [("closure", f.path, tuple(P(u) for u in ups)), P("cx")])
    return sym.prune(t), f, ev


def awaited(t, callee):
    return [x for x in find(t, lambda x: x[0] == "await" and x[1][0] == "call" and x[1][1].startswith(callee))]


def uniq(xs):
    out = []
    for x in xs:
        if x not in out:
            out.append(x)
    return out


def leaves_ok(t):
    return [(c, l) for c, l in loops.paths(t) if l[0] == "adt" and l[2] == "Ok"]


def err_variants(t):
    """names of AWSError variants constructed (as aggregates or through the variant's constructor function) on Err paths"""
    import re
    out = set()
    for c, l in loops.paths(t):
        if l[0] == "adt" and l[2] == "Err":
            for v in find(l, lambda x: x[0] == "adt" and x[1] == AWSE):
                out.add(v[2])
            out.update(re.findall(r"AWSError::(\w+)", repr(l)))
    return out


def only_gates(t, allowed):
    """conditions on the successful paths of an async body other than the allowed tests and the outcomes of awaited calls /
    fallible constructors (discr of a call): each is a gate that can turn a request away"""
    out = []
    for c, l in loops.paths(t):
        if not (l[0] == "adt" and l[2] == "Ok"):
            continue
        for k in c:
            if k[0] in allowed:
                continue
            if len(k) == 3 and k[0][0] == "discr" and k[0][1][0] in ("await", "call") and not any(k[0][1] == a[1] for a in allowed):
                if k[0][1][0] == "await" or k[0][1][1].endswith("::new"):
                    continue
            out.append("%s is %s" % (show(canon_calls(k[0]))[:100], k[1:] if len(k) == 3 else k[1]))
    return sorted(set(out))


def templates(chk, wit):
    evw = sym.Evaluator(wit)
    ref = evw.eval_fn(W + "key_templates", [P("a"), P("b"), P("c"), P("n")])
    T = [x[1] if x[0] == "fmt" else None for x in (ref[1] if ref[0] == "array" else ())]
    chk.ob("R-TEMPLATE", "witness", len(T) == 6 and all(T), "six reference templates decoded from the witness crate", key="reference-templates")
    if len(T) != 6 or not all(T):
        return None
    return T


def realtime_listing(chk, prog, T2S):
    """list_chunks_in_volume: the prefix and limit requested, one identifier per object in order"""
    t, f, ev = safe_body(chk, prog, LC, [LO])
    if t is not None:
        w = f.where()
        site, vol, mk = P("site"), P("volume"), P("max_keys")
        prefix = ("fmt", T2S, (("disp", site), ("disp", fld(vol, "0"))))
        req = call(LO, C(REALTIME, "&str"), prefix, some(mk))
        aw = uniq(awaited(t, LO))
        expect_c(chk, "R-TEMPLATE", LC, aw[0][1] if len(aw) == 1 else ("awaits", len(aw)), req, w, "lists bucket %s with prefix {site}/{volume}/ and the given max-keys" % REALTIME, key="request")
        oks = leaves_ok(t)
        res = ("vfld", ("await", req), "Ok", "0")
        last = call("core::iter::traits::iterator::Iterator::last", call("core::str::<impl str>::split", fld(sym.ELEM, "key"), C(ord("/"), "char")))
        nm = sym.opt_match(last, lambda x: x, lambda: fld(sym.ELEM, "key"))
        want = ("seq", fld(res, "objects"), (), adt(CI, "ChunkIdentifier", (("site", site), ("volume", vol), ("name", nm), ("date_time", fld(sym.ELEM, "last_modified")))))
        got = oks[0][1][3][0][1] if len(oks) == 1 else ("oks", len(oks))
        expect_c(chk, "R-WIRE", LC, sym.prune(got), sym.prune(want), w, "one identifier per object, in order: requested site and volume, the key's last segment, the object's last_modified", key="identifiers")


def realtime_download(chk, prog, T3):
    """download_chunk: the key requested, and the (identifier, chunk) pair returned"""
    t, f, ev = safe_body(chk, prog, DC, [DO, CHUNK_NEW])
    if t is not None:
        w = f.where()
        site, cid = P("site"), P("chunk_id")
        key = ("fmt", T3, (("disp", site), ("disp", fld(fld(cid, "volume"), "0")), ("disp", fld(cid, "name"))))
        req = call(DO, C(REALTIME, "&str"), key)
        aw = uniq(awaited(t, DO))
        expect_c(chk, "R-TEMPLATE", DC, aw[0][1] if len(aw) == 1 else ("awaits", len(aw)), req, w, "requests key {site}/{volume}/{name} from bucket %s" % REALTIME, key="request")
        res = ("vfld", ("await", req), "Ok", "0")
        ch = call(CHUNK_NEW, fld(res, "data"))
        want = ok(("tuple", (adt(CI, "ChunkIdentifier", (("site", site), ("volume", fld(cid, "volume")), ("name", fld(cid, "name")),
                                                       ("date_time", fld(fld(res, "metadata"), "last_modified")))), ("vfld", ch, "Ok", "0"))))
        oks = leaves_ok(t)
        expect_c(chk, "R-WIRE", DC, oks[0][1] if len(oks) == 1 else ("oks", len(oks)), want, w, "returns the identifier asked for stamped with the object's Last-Modified, and the chunk built from the downloaded bytes", key="payload")
        gates = only_gates(t, [])
        chk.ob("R-ORDER", DC, not gates, "the chunk is requested and returned for every identifier" if not gates else
               "the download is additionally conditional on: %s" % "; ".join(gates)[:300], w, key="no-extra-gate")


def run(chk, tier):
    prog, info = common.program("all")
    common.note_extraction(chk, info, prog)
    common.vacuity(chk, ['R-TEMPLATE', 'R-PANIC'])
    wit = common.witness()
    chk.explanation = ("Only the client-side discipline is decided (value numbering of the async bodies under the await model); fidelity for all bucket contents, XML "
                       "escaping and HTTP behaviour belong to reqwest/xml-rs and a live server and are NOT decided. Decided: request keys, prefixes and URLs are the "
                       "specified templates (decoded from core::fmt's template bytes and compared with the same format strings compiled in the witness crate) with "
                       "the right buckets and arguments; a truncated archive listing, an unparsable size, a missing object record, a request/streaming failure, a "
                       "404 and every other status are the specified errors; a download returns the response bytes, the Last-Modified header parsed as RFC 2822 and "
                       "the identifier asked for; listings yield one identifier per object in order, named by the key's last segment (archive: the segments after "
                       "the 4 separators of its key template) and stamped with the object's last_modified; in the XML loop an object is pushed exactly at "
                       "</Contents>; R-PANIC over the seven functions.")
    chk.trust("await model; reqwest/xml-rs/chrono parsers behave as documented; iterator adaptors map/collect preserve order")
    T = templates(chk, wit)
    if T is None:
        return
    T3, T2, T2S, TGET, TLIST, TMAX = T
    download_object(chk, prog, TGET)
    # the archive key is built from the identifier's own site and date (C16's parsers); a real-time download hands its bytes to
    # Chunk::new, which must accept every object and keep its bytes whole (C05)
    from rules import c16, c05
    c16.archive_parsers(chk, prog)
    c05.chunk_sniffing(chk, prog)
    last_modified(chk, prog)
    list_objects(chk, prog, TLIST, TMAX)
    # ---- archive listing
    t, f, ev = safe_body(chk, prog, LF, [LO])
    if t is not None:
        w = f.where()
        site, date = P("site"), P("date")
        prefix = ("fmt", T2, (("disp", call("chrono::naive::date::NaiveDate::format", date, C("%Y/%m/%d", "&str"))), ("disp", site)))
        req = call(LO, C(ARCHIVE, "&str"), prefix, NONE)
        aw = uniq(awaited(t, LO))
        expect_c(chk, "R-TEMPLATE", LF, aw[0][1] if len(aw) == 1 else ("awaits", len(aw)), req, w, "lists bucket %s with prefix {date:%%Y/%%m/%%d}/{site} and no max-keys" % ARCHIVE, key="request")
        res = ("vfld", ("await", req), "Ok", "0")
        for c, l in loops.paths(t):
            trunc = [k for k in c if len(k) == 2 and canon_calls(k[0]) == canon_calls(fld(res, "truncated"))]
            if l[0] == "adt" and l[2] == "Ok":
                chk.ob("R-ORDER", LF, len(trunc) == 1 and trunc[0][1] is False, "Ok is returned only when the listing is not truncated", w, key="ok-only-if-complete")
                objs = canon_calls(fld(res, "objects"))
                name = ("seq", call("core::str::<impl str>::split", fld(sym.ELEM, "key"), C(ord("/"), "char")), (("skip", sym.ELEM, C(4, "usize")),), sym.ELEM)
                want = ("seq", fld(res, "objects"), (), adt(AID, "Identifier", (("0", name),)))
                expect_c(chk, "R-WIRE", LF, l[3][0][1], want, w, "one identifier per listed object, in order, named by the key segments after the 4th separator", key="identifiers")
            elif trunc and trunc[0][1] is True:
                chk.ob("R-ORDER", LF, AWSE in repr(l) and "TruncatedListObjectsResponse" in repr(l), "a truncated listing is the TruncatedListObjectsResponse error", w, key="truncated-is-error")
        seps = sum(x[1].count("/") for x in T3 if x[0] == "lit") + "%Y/%m/%d".count("/")
        chk.ob("R-SIB", LF, seps == 4, "skip(4) equals the number of separators before the name in the archive key template ({date:%%Y/%%m/%%d}/{site}/{name}: %d)" % seps, w, key="skip-count")
    # ---- archive download
    t, f, ev = safe_body(chk, prog, DF, [DO, AID + "::date_time", AID + "::site"])
    if t is not None:
        w = f.where()
        ident = P("identifier")
        dt = ("vfld", call(AID + "::date_time", ident), "Some", "0")
        st = ("vfld", call(AID + "::site", ident), "Some", "0")
        key = ("fmt", T3, (("disp", call("chrono::datetime::DateTime::<Tz>::format", dt, C("%Y/%m/%d", "&str"))), ("disp", st), ("disp", fld(ident, "0"))))
        req = call(DO, C(ARCHIVE, "&str"), key)
        aw = uniq(awaited(t, DO))
        expect_c(chk, "R-TEMPLATE", DF, aw[0][1] if len(aw) == 1 else ("awaits", len(aw)), req, w, "requests key {date:%%Y/%%m/%%d}/{site}/{name} from bucket %s" % ARCHIVE, key="request")
        oks = leaves_ok(t)
        okk = len(oks) == 1 and canon_calls(oks[0][1][3][0][1]) == canon_calls(adt("nexrad_data::volume::file::File", "File", (("0", fld(("vfld", ("await", req), "Ok", "0"), "data")),)))
        chk.ob("R-WIRE", DF, okk, "returns the downloaded bytes unchanged as the volume file", w, key="payload")
        chk.ob("R-ERR", DF, {"DateTimeError", "InvalidSiteIdentifier"} <= err_variants(t), "an unparsable name is a DateTimeError / InvalidSiteIdentifier error", w, key="name-errors")
        # every identifier with a readable date and site is requested: nothing else stands between the name and the GET
        gates = only_gates(t, [("discr", call(AID + "::date_time", ident)), ("discr", call(AID + "::site", ident))])
        chk.ob("R-ORDER", DF, not gates, "the object is requested for every name with a readable date-time and site" if not gates else
               "the request is additionally conditional on: %s" % "; ".join(gates)[:300], w, key="no-extra-gate")
    realtime_listing(chk, prog, T2S)
    realtime_download(chk, prog, T3)
    fns = [LO, DO, LF, DF, LC, DC]
    panics.check_no_panic(chk, prog, [p + "::{closure#0}" for p in fns] + fns + [GLM], "s3 client")


def safe_body(chk, prog, path, opaque):
    try:
        t, f, ev = body_of(prog, path, opaque)
    except sym.Undecided as e:
        chk.blind("VN", path, "async body could not be evaluated: %s" % e)
        return None, None, None
    if t is None:
        chk.blind("VN", path, "async body not found")
    return t, f, ev


def download_object(chk, prog, TGET):
    t, f, ev = safe_body(chk, prog, DO, [GLM])
    if t is None:
        return
    w = f.where()
    bucket, key = P("bucket"), P("key")
    url = ("fmt", TGET, (("disp", bucket), ("disp", key)))
    gets = uniq(awaited(t, "reqwest::get"))
    expect_c(chk, "R-TEMPLATE", DO, gets[0][1] if len(gets) == 1 else ("gets", len(gets)), call("reqwest::get", url), w, "one GET of https://{bucket}.s3.amazonaws.com/{key}", key="url")
    if len(gets) != 1:
        return
    resp = ("vfld", gets[0], "Ok", "0")

    def status_conds(c):
        out = {}
        for k in c:
            if len(k) == 2 and k[0][0] == "bin" and k[0][1] == "Eq" and "Response::status" in repr(canon_calls(k[0])):
                r_ = repr(k[0])
                code = "404" if ("404_u16" in r_ or "StatusCode::NOT_FOUND'" in r_) else ("200" if ("200_u16" in r_ or "StatusCode::OK'" in r_) else "?")
                out[code] = k[1]
        return out
    n_ok = 0
    for c, l in loops.paths(t):
        sc = status_conds(c)
        if l[0] == "adt" and l[2] == "Ok":
            n_ok += 1
            chk.ob("R-ORDER", DO, sc.get("200") is True, "Ok is constructed only under status == 200", w, key="ok-only-200")
            d = l[3][0][1]
            data = fld(d, "data")
            by = uniq(awaited(data, "reqwest::async_impl::response::Response::bytes"))
            okd = len(by) == 1 and by[0][1][2] == (resp,) and strip_views(data) == ("vfld", by[0], "Ok", "0")
            chk.ob("R-WIRE", DO, okd, "the returned data are the response's bytes, unchanged", w, key="data")
            md = fld(d, "metadata")
            chk.ob("R-WIRE", DO, canon_calls(fld(md, "key")) == canon_calls(key), "the returned metadata names the requested key", w, key="metadata-key")
            lm = canon_calls(fld(md, "last_modified"))
            chk.ob("R-WIRE", DO, lm == canon_calls(call(GLM, call("reqwest::async_impl::response::Response::headers", resp))), "last_modified comes from this response's headers", w, key="metadata-last-modified")
        elif "S3ObjectNotFoundError" in repr(l):
            chk.ob("R-ORDER", DO, sc.get("404") is True, "the not-found error is returned only under status == 404", w, key="notfound-only-404")
        elif "S3GetObjectError" in repr(l) and "S3GetObjectRequestError" not in repr(l):
            chk.ob("R-ORDER", DO, sc.get("404") is False and sc.get("200") is False, "every other status is the S3GetObjectError error", w, key="other-status")
    chk.ob("R-ORDER", DO, n_ok == 1, "exactly one success path", w, key="one-ok")
    chk.ob("R-ERR", DO, {"S3GetObjectRequestError", "S3StreamingError", "S3ObjectNotFoundError", "S3GetObjectError"} <= err_variants(t),
           "request and streaming failures are mapped to their own errors and propagated", w, key="error-variants")


def strip_views(t):
    while isinstance(t, tuple) and t and t[0] == "call" and len(t[2]) == 1 and t[1].split("::")[-1] in ("deref", "to_vec", "as_ref", "into", "clone"):
        t = t[2][0]
    return t


def subst_const(t, pp, repl):
    if isinstance(t, tuple) and t:
        if t[0] == "const" and len(t) >= 2 and t[1] == pp:
            return repl
        return tuple(subst_const(x, pp, repl) if isinstance(x, tuple) else x for x in t)
    return t


def last_modified(chk, prog):
    ev = sym.Evaluator(prog)
    got, fn = eval_or_blind(chk, ev, "VN", GLM, [P("headers")])
    if got is None:
        return
    h = call("http::header::map::HeaderMap::<T>::get", P("headers"), C("Last-Modified", "&str"))
    want = sym.opt_match(h, lambda v: sym.opt_match(sym.res_match(call("http::header::value::HeaderValue::to_str", v), lambda s: some(s), lambda e: NONE),
                         lambda s: sym.opt_match(sym.res_match(call("chrono::datetime::DateTime::<chrono::offset::fixed::FixedOffset>::parse_from_rfc2822", s), lambda d: some(d), lambda e: NONE),
                                                 lambda d: some(call("chrono::datetime::DateTime::<Tz>::with_timezone", d, ("Utc",))), lambda: NONE), lambda: NONE), lambda: NONE)
    # the header may be named by the string or by http's typed constant for the same standard header
    got = sym.rebuild(got, {("const", "http::header::name::LAST_MODIFIED", "http::header::name::HeaderName"): C("Last-Modified", "&str")})
    got = subst_const(got, "http::header::name::LAST_MODIFIED", C("Last-Modified", "&str"))
    expect_c(chk, "R-WIRE", GLM, sym.prune(got), sym.prune(want), fn.where(), "the Last-Modified header parsed as RFC 2822 and converted to UTC, None when absent or unparsable")


def list_objects(chk, prog, TLIST, TMAX):
    f = prog.fn(LO + "::{closure#0}")
    if f is None:
        chk.blind("VN", LO, "list_objects body not found")
        return
    try:
        ls = loops.summarize(prog, f)
    except sym.Undecided as e:
        chk.blind("VN", LO, "XML event loop could not be summarised: %s" % e, f.where())
        return
    chk.ob("VN", LO, len(ls) == 1, "%d loop(s) (the XML event loop expected)" % len(ls), f.where(), key="one-loop")
    if len(ls) != 1:
        return
    lp = ls[0]
    w = lp["where"]
    names = {f.local_name(l): l for l in lp["tracked"]}
    if not {"objects", "object", "truncated", "iter"} <= set(names):
        chk.blind("VN", LO, "loop state is not (objects, object, truncated, field, iterator): %s" % sorted(names), w)
        return
    ups = [u["name"] for u in f.j["upvars"]]
    bucket, prefix, mk = (fld(P("arg1"), str(ups.index(n))) if n in ups else None for n in ("bucket", "prefix", "max_keys"))
    it0 = lp["entry"][names["iter"]]
    gets = uniq(find(it0, lambda x: x[0] == "await" and x[1][0] == "call" and x[1][1].startswith("reqwest::get")))
    okurl = False
    if len(gets) == 1:
        url = gets[0][1][2][0]
        base = ("fmt", TLIST, (("disp", bucket), ("disp", prefix)))
        withmax = ("mutated", "alloc::string::String::push_str", 0, (base, ("fmt", TMAX, (("disp", ("vfld", mk, "Some", "0")),))))
        want = sym.opt_match(mk, lambda x: ("mutated", "alloc::string::String::push_str", 0, (base, ("fmt", TMAX, (("disp", x),)))), lambda: base)
        okurl = canon_calls(sym.prune(url)) == canon_calls(sym.prune(want))
    chk.ob("R-TEMPLATE", LO, okurl, "one GET of https://{bucket}.s3.amazonaws.com?list-type=2&prefix={prefix} with &max-keys={n} appended iff max_keys is Some", w, key="url")
    chk.ob("R-WIRE", LO, "EventReader" in repr(it0)[:400] and "Response::text" in repr(canon_calls(it0)), "the XML events come from this response's body text", w, key="body")
    O, OBJ = P("L%d" % names["objects"]), P("L%d" % names["object"])
    pushes = 0
    errs = 0
    for conds, kind, val in lp["paths"]:
        if kind == "exit:error":
            errs += 1
        if kind != "next":
            continue
        for c2, v in loops.split_cases({"objects": val[names["objects"]]}, limit=400):
            s = listalg.seq(v["objects"])
            if s == [("atom", O)]:
                continue
            pushes += 1
            allc = list(conds) + list(c2)
            end_contents = any(len(c) == 2 and c[1] is True and c[0][0] == "bin" and c[0][1] == "Eq" and C("Contents", "&str") in c[0][2:4] for c in allc) and \
                any(len(c) == 3 and c[0][0] == "discr" and c[2] == ((4, 4),) for c in allc)
            okp = s == [("atom", O), ("elem", ("vfld", OBJ, "Some", "0"))] and end_contents
            chk.ob("R-LIN", LO, okp, "an object is appended exactly at </Contents>, and it is the object under construction", w, key="push-at-end-contents")
    chk.ob("R-LIN", LO, pushes == 1, "%d pushing case(s) in the event loop (one expected)" % pushes, w, key="one-push-site")
    chk.ob("R-ERR", LO, errs >= 2, "a field without an object record and an unparsable size leave through error returns (%d error exits)" % errs, w, key="decode-errors")
    try:
        ret = loops.exit_value(prog, f, lp)
        T_ = P("L%d" % names["truncated"])
        okr = ret[0] == "adt" and ret[2] == "Ok" and fld(ret[3][0][1], "objects") == O and fld(ret[3][0][1], "truncated") == T_
        chk.ob("R-WIRE", LO, okr, "returns the collected objects and the IsTruncated flag", w, key="result")
    except sym.Undecided as e:
        chk.blind("VN", LO, "result undecided: %s" % e, w)
