"""C07 — radial model mapping and gate-value conversion."""
from nx import sym, chrono_model as cm
from nx.spec import *
from rules import common

LEVEL = "other"
D = "nexrad_decode::messages::digital_radar_data::"
MSG = D + "message::Message"
GDB = D + "generic_data_block::GenericDataBlock"
RAD = "nexrad_model::data::radial::Radial"
MD = "nexrad_model::data::moment::MomentData"
MRS = "nexrad_model::data::radial::RadialStatus"
STATUS = ["ElevationStart", "IntermediateRadialData", "ElevationEnd", "VolumeScanStart", "VolumeScanEnd", "ElevationStartVCPFinal"]
# Radial field <- message block, in Radial::new's parameter order
MOMENTS = [("reflectivity", "reflectivity_data_block"), ("velocity", "velocity_data_block"), ("spectrum_width", "spectrum_width_data_block"),
           ("differential_reflectivity", "differential_reflectivity_data_block"), ("differential_phase", "differential_phase_data_block"),
           ("correlation_coefficient", "correlation_coefficient_data_block"), ("specific_differential_phase", "specific_diff_phase_data_block")]
ACCESSORS = {"collection_timestamp": "collection_timestamp", "azimuth_number": "azimuth_number", "azimuth_angle_degrees": "azimuth_angle_degrees",
             "azimuth_spacing_degrees": "azimuth_spacing_degrees", "radial_status": "radial_status", "elevation_number": "elevation_number",
             "elevation_angle_degrees": "elevation_angle_degrees", "reflectivity": "reflectivity", "velocity": "velocity", "spectrum_width": "spectrum_width",
             "differential_reflectivity": "differential_reflectivity", "differential_phase": "differential_phase",
             "correlation_coefficient": "correlation_coefficient", "specific_differential_phase": "specific_differential_phase"}


def moment_spec(block):
    hdr = fld(block, "header")
    return adt(MD, "MomentData", (("scale", fld(hdr, "scale")), ("offset", fld(hdr, "offset")), ("values", fld(block, "encoded_data"))))


def radial_spec():
    h = F("header")
    status = table(fld(h, "radial_status"), "u8", [(i, unit_variant(MRS, n)) for i, n in enumerate(STATUS[:5])], unit_variant(MRS, STATUS[5]))
    inst = cm.spec_instant(cast(fld(h, "date"), "u16", "i64"), 1, cast(fld(h, "time"), "u32", "i64"))
    fields = [
        ("collection_timestamp", ("millis", inst[3][0][1])),
        ("azimuth_number", fld(h, "azimuth_number")),
        ("azimuth_angle_degrees", fld(h, "azimuth_angle")),
        ("azimuth_spacing_degrees", binop("Mul", cast(fld(h, "azimuth_resolution_spacing"), "u8", "f32"), C(0.5, "f32"), "f32")),
        ("radial_status", status),
        ("elevation_number", fld(h, "elevation_number")),
        ("elevation_angle_degrees", fld(h, "elevation_angle")),
    ]
    for rf, blk in MOMENTS:
        fields.append((rf, sym.opt_match(F(blk), lambda b: some(moment_spec(b)), lambda: NONE)))
    return ok(adt(RAD, "Radial", tuple(fields)))


def value_spec(scale, offset, enum):
    e = sym.ELEM
    raw = cast(e, "u8", "f32")
    plain = adt(enum, "Value", (("0", raw),))
    scaled = adt(enum, "Value", (("0", binop("Div", binop("Sub", raw, offset, "f32"), scale, "f32")),))
    per = table(e, "u8", [(0, adt(enum, "BelowThreshold", ())), (1, adt(enum, "RangeFolded", ()))], scaled)
    return ite(binop("Eq", scale, C(0.0, "f32"), "f32"), plain, per)


def _says_src_empty(c, src):
    if c[0] == "call" and c[1].endswith("::is_empty") and c[2] == (src,):
        return True
    if c[0] == "bin" and c[1] == "Eq":
        xs = c[2:4]
        return any(sym.is_c(x) and x[1] == 0 for x in xs) and any(x[0] == "len" and x[1] == src or (x[0] == "call" and x[1].endswith("::len") and x[2] == (src,)) for x in xs if isinstance(x, tuple))
    return False


def hoist_seq(t):
    """ite(c, seq(s, ops, f), seq(s, ops, g)) == seq(s, ops, ite(c, f, g)) when c does not depend on the element;
    ite(is_empty(s), [], T) == T when every leaf of T is an elementwise sequence over s (which is [] for an empty s)"""
    if t[0] == "ite" and isinstance(t[2], tuple) and t[2][0] == "call" and t[2][1] in listalg_new():
        ls = sym._leaves(t[3], [])
        if ls and all(x[0] == "seq" and x[1] == ls[0][1] for x in ls) and _says_src_empty(t[1], ls[0][1]):
            t = t[3]
    if t[0] in ("ite", "cases"):
        ls = sym._leaves(t, [])
        if ls and all(x[0] == "seq" and x[1] == ls[0][1] and x[2] == ls[0][2] for x in ls):
            if sym.ELEM not in sym.atoms(cond_of(t)):
                return ("seq", ls[0][1], ls[0][2], sym.map_leaves(t, lambda x: x[3]))
    return t


def listalg_new():
    from nx import listalg
    return listalg.NEW


def cond_of(t):
    return t[1]


def rename_enum(t, frm, to):
    if not isinstance(t, tuple):
        return t
    if t and t[0] == "adt" and t[1] == frm:
        return ("adt", to, t[2], tuple((n, rename_enum(v, frm, to)) for n, v in t[3]))
    return tuple(rename_enum(x, frm, to) if isinstance(x, tuple) else x for x in t)


def run(chk, tier):
    prog, info = common.program("all")
    common.note_extraction(chk, info, prog)
    common.vacuity(chk, ['R-WIRE', 'R-TABLE'])
    chk.explanation = ("Value numbering (with the chrono axioms of C08) reduces Message::radial and Message::into_radial to one canonical term "
                       "Ok(Radial{..}) over the message's fields; it is compared with the specified mapping (timestamp = header instant in epoch ms, numbers, "
                       "angles, spacing = f32(code) * 0.5, the six-way status identity, seven moments in Radial::new's parameter order built from "
                       "(scale, offset, encoded bytes)) and the two conversions with each other; Radial's accessors return their own fields; the per-gate "
                       "value formula of decoded_values and MomentData::values is compared, as an elementwise closed form, with the specification and "
                       "between the two; one-value-per-gate is checked as reader/writer agreement on the word size (necessary condition).")
    chk.trust("chrono axioms A1-A5 (C08); iterator map/collect is elementwise and order preserving; float operations are compared structurally, never re-associated")
    ev = cm.evaluator(prog)
    want = radial_spec()
    got = {}
    for f in ("radial", "into_radial"):
        t, fn = eval_or_blind(chk, ev, "VN", MSG + "::" + f)
        if t is None:
            continue
        got[f] = t
        ok_leaf = t
        report_radial(chk, MSG + "::" + f, t, want, fn.where())
    if len(got) == 2:
        expect(chk, "R-SIB", MSG + "::radial~into_radial", got["radial"], got["into_radial"], None, "borrowing and consuming conversions produce equal radials")

    # Radial::new wires parameter k to the same-named field, accessors return their own field
    fn = prog.fn(RAD + "::new")
    if fn is None:
        chk.blind("R-WIRE", RAD + "::new", "constructor not found")
    else:
        args = [P(fn.local_name(i + 1) or "arg%d" % i) for i in range(fn.arg_count)]
        t, _ = eval_or_blind(chk, ev, "R-WIRE", RAD + "::new", args)
        if t is not None:
            exp = adt(RAD, "Radial", tuple((a[1], a) for a in args))
            expect(chk, "R-WIRE", RAD + "::new", t, exp, fn.where(), "each parameter initialises the field of the same name")
    n = 0
    for acc, field in ACCESSORS.items():
        t, fn = eval_or_blind(chk, ev, "R-WIRE", RAD + "::" + acc)
        if t is not None:
            n += 1
            expect(chk, "R-WIRE", RAD + "::" + acc, t, F(field), fn.where(), "returns its own field")
    chk.floor("Radial accessors", n, 14)
    # the chrono view of the collection time is the same instant: the epoch-millisecond field, converted by chrono itself
    # (the accessor exists only with nexrad-model's `chrono` feature: it must be found in the all-features
    # configuration; in the default-feature configuration of the thorough tier it is compiled out)
    if prog.fn(RAD + "::collection_time") is None and common.CFG not in (None, "all"):
        t, fn = None, None
    else:
        t, fn = eval_or_blind(chk, sym.Evaluator(prog), "R-WIRE", RAD + "::collection_time")
    if t is not None:
        want = ("call", "chrono::datetime::DateTime::<chrono::offset::utc::Utc>::from_timestamp_millis", (F("collection_timestamp"),))
        okk = t == want or sym.sem_eq(t, want)
        chk.ob("R-WIRE", RAD + "::collection_time", okk, "collection_time() = DateTime::from_timestamp_millis(collection_timestamp)" if okk else
               "collection_time() is %s, not the epoch-millisecond field converted as a whole" % show(t)[:200], fn.where(), key="chrono-view")
    t, fn = eval_or_blind(chk, ev, "R-WIRE", MD + "::from_fixed_point", [P("scale"), P("offset"), P("values")])
    if t is not None:
        expect(chk, "R-WIRE", MD + "::from_fixed_point", t, adt(MD, "MomentData", (("scale", P("scale")), ("offset", P("offset")), ("values", P("values")))), fn.where(),
               "(scale, offset, values) initialise the fields of the same name")

    # ---- per-gate value formula
    SMV = D + "definitions::ScaledMomentValue"
    MV = "nexrad_model::data::moment::MomentValue"
    dv, fn1 = eval_or_blind(chk, ev, "VN", GDB + "::decoded_values")
    mv, fn2 = eval_or_blind(chk, ev, "VN", MD + "::values")
    if dv is not None:
        dv = hoist_seq(dv)
        hdr = F("header")
        want_dv = ("seq", F("encoded_data"), (), value_spec(fld(hdr, "scale"), fld(hdr, "offset"), SMV))
        expect(chk, "VN", GDB + "::decoded_values", dv, want_dv, fn1.where(), "raw 0 below-threshold, 1 range-folded, else (raw - offset)/scale; raw itself when scale is 0")
        chk.ob("R-WIRE", GDB + "::decoded_values", fld(hdr, "data_word_size") in sym.atoms(dv),
               "one value per gate: the buffer is sized gates x (word_size/8) but the per-gate decode never reads data_word_size, so a 16-bit moment yields two values per gate",
               fn1.where(), key="one-value-per-gate")
    if mv is not None:
        mv = hoist_seq(mv)
        want_mv = ("seq", F("values"), (), value_spec(F("scale"), F("offset"), MV))
        expect(chk, "VN", MD + "::values", mv, want_mv, fn2.where(), "raw 0 below-threshold, 1 range-folded, else (raw - offset)/scale; raw itself when scale is 0")
        adt_md = prog.adts.get(MD)
        has_ws = adt_md is not None and any("word" in f["name"] or "gate" in f["name"] for f in adt_md["variants"][0]["fields"])
        chk.ob("R-WIRE", MD + "::values", has_ws,
               "one value per gate: MomentData carries neither the word size nor the gate count, so values() maps bytes, not gates (16-bit moments give two values per gate)",
               fn2.where(), key="one-value-per-gate")
    if dv is not None and mv is not None:
        a = sym.rebuild(rename_enum(dv, SMV, MV), {fld(F("header"), "scale"): F("scale"), fld(F("header"), "offset"): F("offset"), F("encoded_data"): F("values")})
        expect(chk, "R-SIB", "decoded_values~MomentData::values", a, mv, None, "decode-level and model-level per-gate formulas agree")


def report_radial(chk, anchor, got, want, where):
    """field-by-field comparison so that a report names the wrong field"""
    if got[0] == "adt" and got[2] == "Ok" and got[3][0][1][0] == "adt" and got[3][0][1][1] == RAD:
        gf = dict(got[3][0][1][3])
        wf = dict(want[3][0][1][3])
        from nx import wbits
        for name, w in wf.items():
            g = gf.get(name, ("missing",))
            if name == "azimuth_spacing_degrees":
                # scaled value: compare as a weighted-bit sum (0.5 * code is exact in f32 and f64 alike)
                cg, cw = wbits.canon(g), wbits.canon(w)
                chk.ob("R-WIRE", anchor, cg is not None and cg == cw, "Radial.azimuth_spacing_degrees = 0.5 x spacing code" if cg == cw and cg is not None else
                       "Radial.azimuth_spacing_degrees differs: found %s ; specified 0.5 x spacing code" % (wbits.show(cg) if cg else show(g)[:200]), where, key="Radial.azimuth_spacing_degrees")
                continue
            expect(chk, "R-WIRE", anchor, g, w, where, "Radial.%s" % name)
    else:
        expect(chk, "VN", anchor, got, want, where, "conversion result")
