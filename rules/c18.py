"""C18 — real-time polling (the poller's own discipline; delivery order over all upload histories is not decided)."""
from nx import sym, loops, panics
from nx.spec import *
from rules import common, c16, c17, c05, c15

LEVEL = "other"
R = "nexrad_data::aws::realtime::"
PC = R + "poll_chunks::"
CI = R + "chunk_identifier::ChunkIdentifier::"
POLL = PC + "poll_chunks"
TR = PC + "try_resiliently"
DL = R + "download_chunk::download_chunk"
GLC, GLCE = PC + "get_latest_chunk", PC + "get_latest_chunk_or_error"
OPAQUE = [R + "estimate_next_chunk_time::estimate_next_chunk_time", TR, DL, GLC, GLCE, PC + "get_volume_coverage_pattern", PC + "update_timing_stats", CI + "next_chunk",
          R + "get_latest_volume::get_latest_volume", CI + "with_sequence", CI + "chunk_type", CI + "date_time", R + "chunk_timing_stats::ChunkTimingStats::new"]
NOT_CURSOR = ("vcp", "timing_stats", "previous_chunk_time", "chunks_until_timing_stats")


def call(name, *args):
    return ("call", name, tuple(args))


def find(t, pred, out=None):
    out = [] if out is None else out
    if isinstance(t, tuple):
        if t and pred(t):
            out.append(t)
        for x in t:
            find(x, pred, out)
    return out


def is_send(c, tx):
    return len(c) == 3 and c[0][0] == "discr" and c[0][1][0] == "call" and c[0][1][1].endswith("Sender::<T>::send") and c[0][1][2][0] == tx


def vcp_lookup(chk, prog):
    """get_volume_coverage_pattern, called on every start chunk before it is delivered: a start chunk that carries a coverage
    pattern anywhere in its records must not abort polling. Decided on the loop summaries: MissingCoveragePattern is returned
    only once every record has been looked at (the record loop's normal exit), never from inside it; some path returns the
    coverage-pattern message found."""
    path = PC + "get_volume_coverage_pattern"
    fn = prog.fn(path)
    if fn is None:
        chk.notes["get_volume_coverage_pattern"] = "helper not found under this name (analysed inside its caller if it was inlined)"
        return
    try:
        ls = loops.summarize(prog, fn)
    except sym.Undecided as e:
        chk.blind("VN", path, "the record loop could not be summarised: %s" % e, fn.where())
        return
    top = [l for l in ls if l["depth"] == 0]
    chk.ob("VN", path, len(top) == 1, "%d top-level loop(s) (the walk over the chunk's records expected)" % len(top), fn.where(), key="one-loop")
    if len(top) != 1:
        return
    early, found = [], 0
    for lp in ls:
        for conds, kind, val in lp["paths"]:
            v = val[2] if isinstance(val, tuple) and val and val[0] == "ret" else None
            if v is None:
                continue
            r = repr(v)
            if "MissingCoveragePattern" in r:
                early.append(lp["where"])
            if v[0] == "adt" and v[2] == "Ok" and "VolumeCoveragePattern" in r:
                found += 1
    chk.ob("R-ERR", path, not early, "MissingCoveragePattern is not returned while records remain to be looked at" if not early else
           "MissingCoveragePattern is returned from inside the record loop (%s): a start chunk whose coverage pattern sits in a later record aborts polling" % early[0], fn.where(), key="no-early-missing")
    try:
        ret = loops.exit_value(prog, fn, top[0])
        chk.ob("R-ERR", path, "MissingCoveragePattern" in repr(ret) and ret[0] == "adt" and ret[2] == "Err", "when no record holds a coverage pattern the result is MissingCoveragePattern", fn.where(), key="missing-at-end")
    except sym.Undecided as e:
        chk.blind("VN", path, "result after the record loop undecided: %s" % e, fn.where())
    chk.ob("R-WIRE", path, found >= 1, "a coverage-pattern message found in a record is returned (%d returning path(s))" % found, fn.where(), key="returns-found")


def run(chk, tier):
    prog, info = common.program("all")
    common.note_extraction(chk, info, prog)
    common.vacuity(chk, ['R-PANIC', 'R-TEMPLATE'])
    chk.explanation = ("In-order, gap-free delivery over all upload histories, delays, faults and stop times is a statement about interleavings of an uploader and a "
                       "retry schedule and is NOT decided. Decided, as necessary conditions, from the value-numbered summary of the polling loop (pre-transform "
                       "coroutine MIR under the await model): every way round the loop first polls the stop channel, then derives the next identifier from the cursor "
                       "alone (its term mentions neither the VCP, the timing statistics nor the estimate), downloads it through the bounded retry helper, sends "
                       "exactly one (identifier, chunk) pair — the pair that download returned — on the consumer channel, and only after that send succeeded sets "
                       "the cursor to that identifier; every failing send/lookup/download is an error return; the loop is left normally only by the stop signal, "
                       "returning Ok; the first delivery is the download of the last listed chunk of the latest volume. try_resiliently is a bounded loop "
                       "0..attempts returning at the first success, with constant budgets at its call sites and interval-discharged backoff arithmetic. The "
                       "successor function's checks (C16) are re-run here because delivery order rests on them, and so are download_chunk's (C17) and "
                       "Chunk::new's (C05) because payload identity and labelling rest on them.")
    chk.trust("await model; mpsc Sender::send fails only when the receiver is gone; Receiver::try_recv does not block")
    fn = prog.fn(POLL + "::{closure#0}")
    if fn is None:
        chk.blind("VN", POLL, "poll_chunks body not found")
        return
    ups = [u["name"] for u in fn.j["upvars"]]
    up = lambda n: fld(P("arg1"), str(ups.index(n)))
    try:
        ls = loops.summarize(prog, fn, opaque=OPAQUE)
    except sym.Undecided as e:
        chk.blind("VN", POLL, "polling loop could not be summarised: %s" % e, fn.where())
        return
    chk.ob("VN", POLL, len(ls) == 1, "%d loop(s) in poll_chunks (the polling loop expected)" % len(ls), fn.where(), key="one-loop")
    if len(ls) != 1:
        return
    lp = ls[0]
    w = lp["where"]
    names = {fn.local_name(l): l for l in lp["tracked"]}
    if "previous_chunk_id" not in names:
        chk.blind("VN", POLL, "no cursor `previous_chunk_id` in the loop state: %s" % sorted(n for n in names if n), w)
        return
    site, tx, stop = up("site"), up("tx"), up("stop_rx")
    cur = P("L%d" % names["previous_chunk_id"])
    others = [P("L%d" % names[n]) for n in NOT_CURSOR if n in names]
    stop_call = call("std::sync::mpsc::Receiver::<T>::try_recv", stop)
    n_next = 0
    kinds = {}
    for conds, kind, val in lp["paths"]:
        kinds[kind] = kinds.get(kind, 0) + 1
        first = conds[0] if conds else None
        polled = first is not None and len(first) == 3 and first[0] == ("discr", stop_call)
        if kind == "exit:normal":
            chk.ob("R-ORDER", POLL, polled and len(conds) == 1 and first[2] == ((0, 0),), "the loop is left normally only when the stop channel yields a value, tested first in the iteration", w, key="stop-exit")
            continue
        chk.ob("R-ORDER", POLL, polled and not any(lo <= 0 <= hi for lo, hi in first[2]), "every iteration begins by polling the stop channel", w, key="stop-first")
        if kind == "exit:error":
            continue
        if kind != "next":
            chk.ob("R-ERR", POLL, False, "the polling loop can be left in an unexpected way (%s)" % kind, w, key="exit:" + kind)
            continue
        n_next += 1
        sends = [c for c in conds if is_send(c, tx)]
        ok1 = len(sends) == 1 and sends[0][2] == ((0, 0),) and sends[0] == [c for c in conds if len(c) == 3][-1]
        chk.ob("R-ORDER", POLL, ok1, "exactly one delivery per iteration, and it is the last fallible step before the cursor moves" if ok1 else
               "%d deliveries on the consumer channel in one iteration" % len(sends), w, key="one-send")
        if not sends:
            continue
        payload = sends[0][0][1][2][1]
        new_cur = val[names["previous_chunk_id"]]
        # the downloaded pair
        dls = [x for x in find(payload, lambda x: x[0] == "await" and x[1][0] == "call" and x[1][1].startswith(TR))]
        dl = dls[0] if dls else None
        okp = False
        if dl is not None and payload[0] == "tuple" and len(payload[1]) == 2:
            pair = ("vfld", fld(dl, "1"), "Some", "0")
            a, b = payload[1]
            while a[0] == "call" and a[1].endswith("::clone"):
                a = a[2][0]
            okp = a == fld(pair, "0") and b == fld(pair, "1") and new_cur == fld(pair, "0")
            got_some = any(len(c) == 3 and c[0] == ("discr", fld(dl, "1")) and c[2] == ((1, 1),) for c in conds)
            okp = okp and got_some
        chk.ob("R-ORDER", POLL, okp, "the pair sent is the (identifier, chunk) the retried download returned, and the cursor becomes that identifier only after the send succeeded", w, key="cursor-after-send")
        if dl is not None:
            args = dl[1][2]
            clo = args[0]
            budget = (args[1], args[2])
            chk.ob("R-TERM", POLL, budget == (C(500, "u64"), C(5, "usize")), "the download is retried with the constant budget (500 ms, 5 attempts)", w, key="download-budget")
            nid = clo[2][-1] if clo[0] == "closure" else clo
            ats = set(find(nid, lambda x: x[0] == "p"))
            leaks = [o for o in others if o in ats]
            chk.ob("R-WIRE", POLL, cur in ats and not leaks and call(CI + "next_chunk", cur) in find(nid, lambda x: x[0] == "call" and x[1] == CI + "next_chunk"),
                   "the identifier to fetch is derived from the cursor's successor alone (no dependence on the VCP, timing statistics or time estimate)" if not leaks else
                   "the identifier to fetch depends on %s" % [show(x) for x in leaks], w, key="cursor-alone")
            # download closure downloads exactly that identifier for this site
            if clo[0] == "closure":
                try:
                    ev = sym.Evaluator(prog, opaque_local=OPAQUE)
                    fut = ev.apply_closure(clo, [], 0)
                    okd = fut[0] == "call" and fut[1] == DL and fut[2][0] == site and fut[2][1] == nid
                except sym.Undecided:
                    okd = False
                chk.ob("R-WIRE", POLL, okd, "the retried action is download_chunk(site, next identifier)", w, key="download-action")
            # new-volume lookup budget
            for v in find(nid, lambda x: x[0] == "await" and x[1][0] == "call" and x[1][1].startswith(TR)):
                chk.ob("R-TERM", POLL, (v[1][2][1], v[1][2][2]) == (C(500, "u64"), C(10, "usize")), "the new-volume lookup is retried with the constant budget (500 ms, 10 attempts)", w, key="lookup-budget")
    chk.ob("R-ORDER", POLL, kinds.get("exit:normal", 0) == 1 and n_next >= 2 and kinds.get("exit:error", 0) >= 8, "loop outcomes: %s" % kinds, w, key="outcomes")
    chk.floor("ways round the polling loop", n_next, 2)
    try:
        ret = loops.exit_value(prog, fn, lp, opaque=OPAQUE)
        expect(chk, "R-ORDER", POLL, ret, ok(sym.UNIT), w, "after the stop signal polling returns Ok(())")
    except sym.Undecided as e:
        chk.blind("VN", POLL, "result undecided: %s" % e, w)
    first_delivery(chk, prog, fn, lp, names, site, tx)
    retry_helper(chk, prog)
    c16.successor_only(chk, prog)
    # "every delivered payload is byte-identical to the uploaded object and labelled with its own key and upload time": what
    # is delivered is what download_chunk returns, so its obligations (C17: key requested, bytes unchanged, Last-Modified
    # parsed, identifier asked for) and the chunk constructor's (C05: every "AR2..."/"....BZ..." payload is accepted and
    # wrapped unchanged) are obligations of this property too
    T = c17.templates(chk, common.witness())
    if T is not None:
        c17.download_object(chk, prog, T[3])
        c17.last_modified(chk, prog)
        c17.realtime_download(chk, prog, T[0])
        # "starting at the newest chunk present at start": the start-up listing (C17) and the latest-volume wiring (C15)
        c17.list_objects(chk, prog, T[4], T[5])
        c17.realtime_listing(chk, prog, T[2])
    c05.chunk_sniffing(chk, prog)
    c15.glv(chk, prog)
    c15.probes(chk, prog)
    vcp_lookup(chk, prog)
    # the lookup walks the start chunk's records and decodes their message streams: a VCP message that is present is found
    # only if the records tile the chunk (C05) and the stream is framed message by message (C03)
    from rules import c03
    c05.records_and_payloads(chk, prog)
    c03.framing(chk, prog)
    # "never ... panics": the estimate computed at the top of every iteration divides by the timing window's length (C19)
    from rules import c19
    c19.window(chk, prog)
    # "never hangs": how long an iteration sleeps is the estimate's value, so its decision tree (C19) is an obligation here too
    c19.estimate(chk, prog)


def first_delivery(chk, prog, fn, lp, names, site, tx):
    w = fn.where()
    envs, tree, ev = loops.entry_env(prog, fn, lp["head"], opaque=OPAQUE)
    joins = [(c, l) for c, l in loops.paths(tree) if isinstance(l, tuple) and l and l[0] == "@join"]
    chk.ob("R-ORDER", POLL, len(joins) >= 1, "the polling loop is reached", w, key="reaches-loop")
    if not joins:
        return
    n = 0
    for conds, leaf in joins:
        sends = [c for c in conds if is_send(c, tx)]
        okk = len(sends) == 1 and sends[0][2] == ((0, 0),)
        if okk:
            payload = sends[0][0][1][2][1]
            dls = find(payload, lambda x: x[0] == "await" and x[1][0] == "call" and x[1][1] == DL)
            okk = bool(dls)
            if okk:
                arg = dls[0][1][2][1]
                lists = find(arg, lambda x: x[0] == "await" and x[1][0] == "call" and x[1][1] == GLC)
                glv = find(arg, lambda x: x[0] == "await" and x[1][0] == "call" and x[1][1].startswith(R + "get_latest_volume::get_latest_volume"))
                okk = len(lists) >= 1 and len(glv) >= 1 and lists[0][1][2][0] == site
        n += 1
        chk.ob("R-WIRE", POLL, okk, "before the loop exactly one chunk is delivered: the download of the latest chunk listed in the latest volume", w, key="first-delivery")
    e = envs[0]
    # the cursor starts at the delivered identifier
    cur0 = e[names["previous_chunk_id"]]
    dl0 = find(cur0, lambda x: x[0] == "await" and x[1][0] == "call" and x[1][1] == DL)
    chk.ob("R-WIRE", POLL, bool(dl0) and cur0 == fld(("vfld", dl0[0], "Ok", "0"), "0"), "the cursor starts at the first delivered chunk's identifier", w, key="initial-cursor")
    # get_latest_chunk = last element of the listing (max 100 keys)
    for f_, tail in ((GLC, "get_latest_chunk"), (GLCE, "get_latest_chunk_or_error")):
        co = prog.fn(f_ + "::{closure#0}")
        if co is None:
            chk.blind("VN", f_, "body not found")
            continue
        ups = [u["name"] for u in co.j["upvars"]]
        ev2 = sym.Evaluator(prog, opaque_local=[R + "list_chunks_in_volume::list_chunks_in_volume"])
        try:
            t = sym.prune(ev2.eval_fn(co, [("closure", co.path, tuple(P(u) for u in ups)), P("cx")]))
        except sym.Undecided as ex:
            chk.blind("VN", f_, "undecided: %s" % ex)
            continue
        lists = find(t, lambda x: x[0] == "await" and x[1][0] == "call" and x[1][1].endswith("list_chunks_in_volume"))
        lasts = find(t, lambda x: x[0] == "call" and x[1].endswith("<impl [T]>::last"))
        chk.ob("R-WIRE", f_, bool(lists) and bool(lasts) and lists[0][1][2][0] == P("site") and lists[0][1][2][1] == P("volume"),
               "%s = the last identifier listed for this site and volume" % tail, co.where(), key="latest-is-last")


def retry_helper(chk, prog):
    f = prog.fn(TR + "::{closure#0}")
    if f is None:
        chk.blind("R-TERM", TR, "try_resiliently body not found")
        return
    try:
        ls = loops.summarize(prog, f)
    except sym.Undecided as e:
        chk.blind("R-TERM", TR, "retry loop could not be summarised: %s" % e, f.where())
        return
    chk.ob("R-TERM", TR, len(ls) == 1, "%d loop(s) in the retry helper (one expected)" % len(ls), f.where(), key="one-loop")
    if len(ls) != 1:
        return
    lp = ls[0]
    w = lp["where"]
    ups = [u["name"] for u in f.j["upvars"]]
    att = fld(P("arg1"), str(ups.index("attempts"))) if "attempts" in ups else None
    act = fld(P("arg1"), str(ups.index("action"))) if "action" in ups else None
    chk.ob("R-TERM", TR, loops.const_value(lp["start"]) == 0 and lp["N"] == att, "the retry loop is 0..attempts (bounded by its argument)", w, key="bounded")
    attempt = lp["I"]
    res = ("await", call("core::ops::function::Fn::call", act, sym.UNIT))
    okc = 0
    for conds, kind, val in lp["paths"]:
        if kind == "next":
            okk = len(conds) == 2 and loops.cont_cond(conds[0], attempt, lp["N"]) and conds[1][0] == ("discr", res) and not any(lo <= 0 <= hi for lo, hi in conds[1][2])
            chk.ob("R-TERM", TR, okk, "another attempt is made exactly when the action failed (any error) and attempts remain", w, key="retry-on-any-error")
            okc += 1
        elif isinstance(val, tuple) and val and val[0] == "ret":
            v = val[2]
            want = ("tuple", (binop("Add", attempt, C(1, "usize"), "usize"), some(("vfld", res, "Ok", "0"))))
            okk = len(conds) == 2 and conds[1] == (("discr", res), "isize", ((0, 0),)) and v == want
            chk.ob("R-TERM", TR, okk, "the helper returns early only with the first successful result and the attempts used" if okk else
                   "an early return that is not the first success: %s under %s" % (show(canon_calls(v))[:100], [show(canon_calls(c[0]))[:60] for c in conds]), w, key="early-return")
            okc += 1
        elif kind != "exit:normal":
            chk.ob("R-TERM", TR, False, "unexpected way out of the retry loop (%s)" % kind, w, key="exit:" + kind)
    try:
        ret = loops.exit_value(prog, f, lp)
        expect(chk, "R-TERM", TR, ret, ("tuple", (att, NONE)), w, "when the budget is exhausted the helper reports (attempts, None)")
    except sym.Undecided as e:
        chk.blind("R-TERM", TR, "exit value undecided: %s" % e, w)
    # backoff arithmetic cannot overflow for the budgets used at the call sites
    seeds = {f.path: {fld(("arg", 1), "wait_millis"): (500, 500), fld(("arg", 1), "attempts"): (1, 10),
                      fld(("arg", 1), "1"): (500, 500), fld(("arg", 1), "2"): (1, 10)}}
    chk.assume("try_resiliently is called with wait_millis = 500 and attempts <= 10 (checked at its two call sites)")
    panics.check_no_panic(chk, prog, [f.path], "retry backoff", seeds=seeds, only=[f.path], kinds=["assert:", "pre:", "panic:", "unwrap:"])
