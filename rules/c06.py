"""C06 — volume, record and chunk handling is total on arbitrary bytes."""
from nx import panics, term, interval
from rules import common

LEVEL = "proof"
V = "nexrad_data::volume::"
ENTRIES = [
    V + "file::File::new", V + "file::File::data", V + "file::File::header", V + "file::File::records", V + "file::File::scan",
    V + "record::Record::<'a>::new", V + "record::Record::<'a>::from_slice", V + "record::Record::<'a>::data", V + "record::Record::<'a>::compressed",
    V + "record::Record::<'a>::decompress", V + "record::Record::<'a>::messages", V + "record::split_compressed_records",
    V + "header::Header::deserialize", V + "header::Header::tape_filename", V + "header::Header::extension_number",
    V + "header::Header::date_time", V + "header::Header::icao_of_radar",
    "nexrad_data::aws::realtime::chunk::Chunk::<'_>::new", "nexrad_data::aws::realtime::chunk::Chunk::<'_>::data",
]
DEBUG_OF = [V + "file::File", V + "record::Record<'_>", V + "record::RecordData<'_>", V + "header::Header",
            "nexrad_data::aws::realtime::chunk::Chunk<'a>"]


def run(chk, tier):
    prog, info = common.program("all")
    common.note_extraction(chk, info, prog)
    common.vacuity(chk, ['R-PANIC'])
    chk.explanation = ("R-PANIC + R-TERM over everything reachable from the volume/record/chunk API (constructors, accessors, records, header, "
                       "compressed, decompress, messages, scan) and the Debug impls of File, Record, RecordData, Header and Chunk, including the "
                       "whole decode scope of C04 through Record::messages: every panic source must be discharged by interval analysis, every loop "
                       "must be in a terminating class; unclassified external callees fail closed.")
    chk.trust("library tables rules/tables/lib.py; BzDecoder::read_to_end returns Err on a corrupt stream and terminates (axiom, library not analysed)")
    chk.trust("Seek axiom and bincode visit_seq-only axiom as in C04")
    entries = list(ENTRIES)
    found_dbg = 0
    for p, f in prog.fns.items():
        if p.endswith("::fmt") and f.j.get("impl_self") in DEBUG_OF and (f.j.get("impl_trait") or "").endswith("Debug"):
            entries.append(p)
            found_dbg += 1
    chk.floor("Debug impls", found_dbg, 5)
    fns, edges = panics.check_no_panic(chk, prog, entries, "data")
    cyc = panics.find_cycle(edges)
    chk.ob("R-ALLOC", "call-graph", cyc is None, "call graph of the scope is acyclic" if cyc is None else "recursion: %s" % (cyc,), key="acyclic")
    term.check_loops(chk, prog, fns, "data")
    panics.check_unpaid_growth(chk, prog, fns, edges, "data")
    term.check_seek_discipline(chk, prog, fns, interval.Engine(prog))
    if tier == "thorough":
        from nx import clippyx
        clippyx.cross_check(chk, prog, fns, "data")
    chk.floor("functions in scope", len(fns), 90)
