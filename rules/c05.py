"""C05 — volume container: records tile the file, compression flag, header exact."""
from nx import chrono_model as cm, bytepred, sym, layout, loops, listalg
from nx.spec import *
from rules import common

LEVEL = "other"
V = "nexrad_data::volume::"
REC = V + "record::Record::<'a>::"
SPLIT = V + "record::split_compressed_records"
HDR = V + "header::Header"
RECORDS = V + "file::File::records"
CHUNK_NEW = "nexrad_data::aws::realtime::chunk::Chunk::<'_>::new"
LEN = "core::slice::<impl [T]>::len"
ERR = "nexrad_data::result::Error"


def call(name, *args):
    return ("call", name, tuple(args))


def rng(a, b):
    return adt("core::ops::range::Range", "Range", (("start", C(a, "usize")), ("end", C(b, "usize"))))


def magic_test(t, d):
    """recognise `d[lo..hi] == literal` guarded by length, in its indexing or `get` form -> (lo, hi, literal) or None"""
    lit = lambda x: x[1] if (x[0] == "const" and x[1].startswith('b"')) else None
    # form A: len(d) >= hi && index(d, lo..hi) == lit
    if t[0] == "cases" and t[1] == call(LEN, d) and len(t[3]) == 2:
        (rs0, t0), (rs1, t1) = t[3]
        if t0 == FALSE and rs0[0][0] == 0 and t1[0] == "bin" and t1[1] == "Eq":
            hi_guard = rs0[0][1] + 1
            for a, b in ((t1[2], t1[3]), (t1[3], t1[2])):
                if lit(b) and a[0] == "call" and a[1].endswith("::index") and a[2][0] == d and a[2][1][0] == "adt":
                    f = dict(a[2][1][3])
                    lo, hi = f["start"][1], f["end"][1]
                    if hi_guard >= hi:
                        return lo, hi, lit(b)
    # form B: get(d, lo..hi) == Some(lit)   /  matches on the Option
    for x in sym._leaves(t, []):
        pass
    txt = None
    g = find_get(t, d)
    if g is not None:
        f = dict(g[2][1][3])
        lo, hi = f["start"][1], f["end"][1]
        if t[0] == "bin" and t[1] == "Eq":
            for a, b in ((t[2], t[3]), (t[3], t[2])):
                if a == g and b[0] == "adt" and b[2] == "Some" and lit(b[3][0][1]):
                    return lo, hi, lit(b[3][0][1])
        # every true leaf must be under `get is Some` and an equality of its payload with the literal
        for conds, leaf in loops.paths(t):
            if leaf == FALSE:
                continue
            eqs = [c for c in conds if len(c) == 2 and c[1] is True and c[0][0] == "bin" and c[0][1] == "Eq"]
            if leaf == TRUE and len(eqs) == 1:
                e = eqs[0][0]
                for a, b in ((e[2], e[3]), (e[3], e[2])):
                    if lit(b) and a == ("vfld", g, "Some", "0"):
                        txt = lit(b)
            elif leaf[0] == "bin" and leaf[1] == "Eq":
                for a, b in ((leaf[2], leaf[3]), (leaf[3], leaf[2])):
                    if lit(b) and (a == ("vfld", g, "Some", "0") or a == g):
                        txt = lit(b)
        if txt:
            return lo, hi, txt
    return None


def find_get(t, d):
    if not isinstance(t, tuple):
        return None
    if t and t[0] == "call" and t[1].endswith("<impl [T]>::get") and t[2][0] == d and t[2][1][0] == "adt" and t[2][1][1].endswith("::Range"):
        return t
    for x in t[1:]:
        if isinstance(x, tuple):
            r = find_get(x, d)
            if r is not None:
                return r
    return None


def listalg_seq_empty(t):
    from nx import listalg
    try:
        return listalg.seq(t) == []
    except Exception:
        return False


def records_and_payloads(chk, prog):
    """the container obligations other properties rest on (C01: no radial is lost between the file bytes and the decoded
    messages): records tile the bytes after the header, compressed() / decompress() / messages() / data() are as specified"""
    tiling(chk, prog)
    slf = P("self")
    d = call(REC + "data", slf)
    ev = sym.Evaluator(prog, opaque_local=[REC + "data"])
    got, fn = eval_or_blind(chk, ev, "VN", REC + "compressed")
    is_bz = lambda w: w.len >= 6 and w.bytes[4] == 0x42 and w.bytes[5] == 0x5A
    POS = {4: [0x41, 0x42, 0x5A], 5: [0x41, 0x42, 0x5A]}
    ws = bytepred.worlds(8, POS, got)
    if got is not None:
        try:
            bad = [(w, r) for w, r in ((w, bytepred.evalw(got, d, w)) for w in ws) if r is not is_bz(w)]
            m = None if bad else True
            detail = "on %r it is %s" % (bad[0][0], show(bad[0][1])[:120] if isinstance(bad[0][1], tuple) else bad[0][1]) if bad else ""
        except bytepred.Unknown as e:
            m, detail = None, "undecided: %s in %s" % (e, show(got)[:200])
        except bytepred.Undefined:
            m, detail = None, "indexes past the end of the data without a length test"
        chk.ob("VN", REC + "compressed", m is True, "compressed <=> the two bytes after the 4-byte size prefix are \"BZ\" (length-guarded): equal as functions on all %d length x byte classes" % len(ws) if m else
               "compression test is not `data[4..6] == \"BZ\"`: %s" % detail, fn.where(), key="magic")
    # decompress, with compressed() as the code has it
    ev = sym.Evaluator(prog, opaque_local=[REC + "data", "nexrad_decode::messages::decode_messages"])
    got, fn = eval_or_blind(chk, ev, "VN", REC + "decompress")
    if got is not None:
        def want_for(w):
            if not is_bz(w):
                return err(adt(ERR, "UncompressedDataError", ()))
            src = ("bytes", w.bytes[4:])
            rd = call("std::io::Read::read_to_end", call("bzip2::read::BzDecoder::<R>::new", src), call("alloc::vec::Vec::<T>::new"))
            out = ("mutated", "std::io::Read::read_to_end", 1, (call("bzip2::read::BzDecoder::<R>::new", src), call("alloc::vec::Vec::<T>::new")))
            return sym.res_match(rd, lambda x: ok(adt(V + "record::Record", "Record", (("0", adt(V + "record::RecordData", "Owned", (("0", out),))),))), lambda e: err(("conv", e)))
        bad, und = None, None
        for w in bytepred.worlds(8, POS, got):
            try:
                r = bytepred.evalw(got, d, w)
            except (bytepred.Unknown, bytepred.Undefined) as e:
                und = "%s on %r" % (type(e).__name__, w)
                break
            if not (isinstance(r, tuple) and sym.sem_eq(r, want_for(w))):
                bad = (w, r)
                break
        okk = bad is None and und is None
        chk.ob("VN", REC + "decompress", okk, "Err(UncompressedDataError) unless compressed; otherwise the bzip2 stream after the 4-byte prefix inflated into a new owned record" if okk else
               "decompress differs from the specification %s" % (und or ("on %r: %s" % (bad[0], show(bad[1])[:300]))), fn.where(),
               key="Err(UncompressedDataError) unless compressed; otherwise the bzip2 stream after the 4-byte prefix inflated into a new owned record")
    ev = sym.Evaluator(prog, opaque_local=[REC + "data", REC + "compressed", "nexrad_decode::messages::decode_messages"])
    comp = call(REC + "compressed", slf)
    got, fn = eval_or_blind(chk, ev, "VN", REC + "messages")
    if got is not None:
        dm = call("nexrad_decode::messages::decode_messages", call("std::io::cursor::Cursor::<T>::new", d))
        want = ite(comp, err(adt(ERR, "CompressedDataError", ())), sym.res_match(dm, lambda x: ok(x), lambda e: err(("conv", e))))
        expect(chk, "VN", REC + "messages", got, want, fn.where(), "Err(CompressedDataError) when compressed; otherwise decode_messages over the record's bytes")
    # Record::data returns the wrapped bytes in both representations
    ev0 = sym.Evaluator(prog)
    got, fn = eval_or_blind(chk, ev0, "R-WIRE", REC + "data")
    if got is not None:
        leaves = {repr(x) for x in sym._leaves(got, [])}
        okk = leaves == {repr(("vfld", F("0"), "Owned", "0")), repr(("vfld", F("0"), "Borrowed", "0"))}
        chk.ob("R-WIRE", REC + "data", okk, "data() is the wrapped byte slice, borrowed or owned", fn.where(), key="data")
    # File::records skips exactly the header: compared as a function of the file's bytes (lengths around the header size);
    # splitting nothing yields no records (the tiling induction's base case), so `Vec::new()` and `split(b"")` are one value
    ev1 = sym.Evaluator(prog, opaque_local=[SPLIT])
    got, fn = eval_or_blind(chk, ev1, "VN", RECORDS)
    if got is not None:
        hsize = prog.adts[HDR]["size"] if HDR in prog.adts else None
        file_bytes = F("0")
        empty_vec = call("alloc::vec::Vec::<T>::new")
        bad = None
        for n in (0, 1, 23, 24, 25, 30):
            wd = bytepred.World(n, {i: (i * 7 + 1) & 0xFF for i in range(n)})
            try:
                r = bytepred.evalw(got, file_bytes, wd)
            except (bytepred.Unknown, bytepred.Undefined) as e:
                bad = "%s on a %d-byte file" % (type(e).__name__, n)
                break
            want = ("call", SPLIT, (("bytes", wd.bytes[24:]),)) if n > 24 else empty_vec
            if isinstance(r, tuple) and r[0] == "call" and r[1] == SPLIT and r[2] == (("bytes", b""),):
                r = empty_vec
            if r != want:
                bad = "on a %d-byte file it is %s" % (n, show(r)[:160] if isinstance(r, tuple) else r)
                break
        chk.ob("VN", RECORDS, bad is None and hsize == 24, "records() splits the bytes after the 24-byte header (size_of::<Header>() = %s), nothing when the file is shorter" % hsize if bad is None else
               "records() does not split exactly the bytes after the header: %s" % bad, fn.where(), key="skip-header")
    return ev0


def run(chk, tier):
    prog, info = common.program("all")
    common.note_extraction(chk, info, prog)
    common.vacuity(chk, ['R-LIN', 'R-WIRE'])
    chk.explanation = ("R-LAYOUT on the 24-byte volume header (size_of = wire size, used to skip it). Tiling is proved as an induction over the splitting loop's "
                       "value-numbered summary with the list algebra on bytes: content = concat(records) ++ remaining equals the input at entry, every iteration "
                       "moves a prefix of `remaining` into one new record (split(x, n) = (a, b) with a ++ b = x) and the loop ends when nothing remains; a record's "
                       "length is 4 + unsigned_abs(i32_be(first four bytes)). compressed() is the test bytes[4..6] == \"BZ\" (length-guarded); decompress() errors "
                       "on an uncompressed record and otherwise inflates bytes[4..]; messages() errors on a compressed record and otherwise decodes the record's "
                       "bytes; header accessors read their own fields; Chunk::new sniffs the same offsets.")
    chk.trust("slice::split_at_checked(x, n) = Some((x[..n], x[n..])) when n <= len; bzip2 decompression fidelity is library behaviour and is not analysed")
    layout.check_struct(chk, prog, HDR, want_deser=True)
    layout.check_option_chain(chk, prog, HDR + "::deserialize")
    ev0 = records_and_payloads(chk, prog)
    # header accessors
    for acc, field in (("tape_filename", "tape_filename"), ("extension_number", "extension_number"), ("icao_of_radar", "icao_of_radar")):
        got, fn = eval_or_blind(chk, ev0, "R-WIRE", HDR + "::" + acc)
        if got is not None:
            c = call("core::str::converts::from_utf8", F(field))
            expect(chk, "R-WIRE", HDR + "::" + acc, got, sym.res_match(c, lambda x: some(x), lambda e: NONE), fn.where(), "the field's bytes as UTF-8 text")
    # the header's date-time accessor: the encoded day count and milliseconds as one UTC instant, for every field value
    evc = cm.evaluator(prog)
    got, fn = eval_or_blind(chk, evc, "VN", HDR + "::date_time")
    if got is not None:
        d16 = cast(F("date"), "u32", "u16")
        want = cm.spec_instant(cast(d16, "u16", "i64"), 1, cast(F("time"), "u32", "i64"))
        expect(chk, "VN", HDR + "::date_time", got, want, fn.where(), "date-time = 1970-01-01 + (date - 1) days + time ms (the same closed form C08 holds the decode crate to)", key="header-date-time")
    chunk_sniffing(chk, prog, ev0)


def chunk_sniffing(chk, prog, ev0=None):
    """Chunk::new: a start chunk iff the data begin with "AR2", else a record chunk iff bytes 4..6 are "BZ", else an error;
    the bytes are wrapped unchanged"""
    ev0 = ev0 or sym.Evaluator(prog)
    is_bz = lambda w: w.len >= 6 and w.bytes[4] == 0x42 and w.bytes[5] == 0x5A
    got, fn = eval_or_blind(chk, ev0, "VN", CHUNK_NEW, [P("data")])
    if got is not None:
        dd = P("data")
        start = ok(adt("nexrad_data::aws::realtime::chunk::Chunk", "Start", (("0", adt(V + "file::File", "File", (("0", dd),))),)))
        rec = ok(adt("nexrad_data::aws::realtime::chunk::Chunk", "IntermediateOrEnd", (("0", adt(V + "record::Record", "Record", (("0", adt(V + "record::RecordData", "Owned", (("0", dd),))),))),)))
        bad_ = err(adt(ERR, "AWS", (("0", adt("nexrad_data::result::aws::AWSError", "UnrecognizedChunkFormat", ())),)))
        wsc = bytepred.worlds(8, {0: [0x41, 0x42], 1: [0x52, 0x5A], 2: [0x32, 0x33], 4: [0x41, 0x42, 0x5A], 5: [0x41, 0x42, 0x5A]}, got)
        is_ar2 = lambda w: w.len >= 3 and w.bytes[:3] == b"AR2"
        res = {"start": None, "record": None}
        for w in wsc:
            try:
                r = bytepred.evalw(got, dd, w)
            except (bytepred.Unknown, bytepred.Undefined) as e:
                res["start"] = res["record"] = "%s on %r" % (type(e).__name__, w)
                break
            want = start if is_ar2(w) else (rec if is_bz(w) else bad_)
            if r != want:
                res["start" if (is_ar2(w) or r == start) else "record"] = "on %r: %s" % (w, show(r)[:200] if isinstance(r, tuple) else r)
        chk.ob("VN", CHUNK_NEW, res["start"] is None, "data starting with \"AR2\" is a start chunk wrapping the whole volume file" if res["start"] is None else
               "start-chunk sniffing differs: %s" % res["start"], fn.where(), key="chunk-start")
        chk.ob("VN", CHUNK_NEW, res["record"] is None, "otherwise a record chunk exactly when bytes 4..6 are \"BZ\", else UnrecognizedChunkFormat" if res["record"] is None else
               "record-chunk sniffing differs: %s" % res["record"], fn.where(), key="chunk-record")

    # Chunk::data hands back the wrapped bytes unchanged: the whole volume file of a start chunk, the whole record otherwise
    got, fn = eval_or_blind(chk, sym.Evaluator(prog), "R-WIRE", "nexrad_data::aws::realtime::chunk::Chunk::<'_>::data", [P("self")])
    if got is not None:
        slf = P("self")
        rec0 = fld(("vfld", slf, "IntermediateOrEnd", "0"), "0")
        want = sym.mk_cases(("discr", slf), "isize", ((((0, 0),), fld(("vfld", slf, "Start", "0"), "0")),
                                                     (((1, 1),), sym.mk_cases(("discr", rec0), "isize", ((((0, 0),), ("vfld", rec0, "Borrowed", "0")), (((1, 1),), ("vfld", rec0, "Owned", "0")))))))
        expect(chk, "R-WIRE", "nexrad_data::aws::realtime::chunk::Chunk::<'_>::data", got, want, fn.where(), "data() is the wrapped bytes, whole: the volume file of a start chunk, the record otherwise")


def tiling(chk, prog):
    """records tile the bytes: decided on the splitting loop's value-numbered summary, as an induction whose step is
    compared with the specification as a *function of the remaining bytes* — one iteration's (record, new remainder) pair is
    folded on representative inputs covering every ordering of (length, 4, 4 + |size|) and every kind of size prefix —
    so it does not matter whether the code shrinks a slice, walks an offset, uses split_at_checked, min + split_at, or slice
    patterns."""
    fn = prog.fn(SPLIT)
    if fn is None:
        chk.blind("R-LIN", SPLIT, "split_compressed_records not found")
        return
    try:
        ls = loops.summarize(prog, fn)
    except sym.Undecided as e:
        chk.blind("R-LIN", SPLIT, "splitting loop could not be summarised: %s" % e, fn.where())
        return
    chk.ob("R-LIN", SPLIT, len(ls) == 1, "%d loop(s) (one expected)" % len(ls), fn.where(), key="one-loop")
    if len(ls) != 1:
        return
    lp = ls[0]
    w = lp["where"]
    data = P(fn.local_name(1) or "data")
    common.pre_loop_returns(chk, "R-LIN", SPLIT, prog, fn, lp["head"], empty_of=data, empty_ok=lambda l_: listalg_seq_empty(l_), what="the splitting loop")
    role = {}
    for l in lp["tracked"]:
        ty = fn.local_ty(l)
        if ty.startswith("alloc::vec::Vec<"):
            role["R"] = l
        elif ty.startswith("&[u8]"):
            role["S"] = l
        elif ty == "usize":
            role["O"] = l
    if set(role) not in ({"R", "S"}, {"R", "O"}):
        chk.blind("R-LIN", SPLIT, "loop state is not (records, remaining bytes) or (records, offset): %s" % [(fn.local_name(l), fn.local_ty(l)) for l in lp["tracked"]], w)
        return
    slice_form = "S" in role
    R = P("L%d" % role["R"])
    X = P("L%d" % role["S" if slice_form else "O"])
    e0 = lp["entry"]
    init_ok = listalg.seq(e0[role["R"]]) == [] and (e0[role["S"]] == data if slice_form else e0[role["O"]] == C(0, "usize"))
    chk.ob("R-LIN", SPLIT, init_ok, "before the loop: no records, everything remains", w, key="init")

    def expected(rem):
        if len(rem) < 4:
            return len(rem)
        return min(4 + abs(int.from_bytes(rem[:4], "big", signed=True)), len(rem))
    sizes = [0, 1, 2, 3, 4, 5, 6, 7, 8, 9, 255, 256, 65536, 2 ** 31 - 1, -1, -2, -3, -4, -5, -8, -(2 ** 31)]
    rems = sorted({(sz.to_bytes(4, "big", signed=True) + bytes([bytepred.FILL]) * 9)[:n] for sz in sizes for n in range(0, 13)})
    cases = []        # (conds, kind, piece term | None, new state term | None)
    def pieces_of(ret):
        """payload terms of the records the function appends after the loop before returning `ret`, or None"""
        recs = listalg.seq(ret)
        if recs is None or not recs or recs[0] != ("atom", R):
            return None
        out = []
        for k, r in recs[1:]:
            if not (k == "elem" and r[0] == "adt" and r[1] == V + "record::Record" and r[3][0][1][0] == "adt" and r[3][0][1][2] == "Borrowed"):
                return None
            out.append(r[3][0][1][3][0][1])
        return out
    normal_ret = None
    try:
        normal_ret = loops.exit_value(prog, fn, lp)
    except sym.Undecided:
        pass
    for conds, kind, val in lp["paths"]:
        if kind == "exit:normal":
            cases.append((conds, "exit", normal_ret, None))
        elif kind == "exit:other" and isinstance(val, tuple) and val and val[0] == "ret" and val[2] is not None:
            cases.append((conds, "exit", val[2], None))          # `break`: what the function returns from here
        elif kind == "next":
            for c2, v in loops.split_cases(val):
                recs = listalg.seq(v[role["R"]])
                piece = None
                if recs is not None and len(recs) == 2 and recs[0] == ("atom", R) and recs[1][0] == "elem":
                    r = recs[1][1]
                    if r[0] == "adt" and r[1] == V + "record::Record" and r[3][0][1][0] == "adt" and r[3][0][1][2] == "Borrowed":
                        piece = r[3][0][1][3][0][1]
                cases.append((tuple(conds) + tuple(c2), "next", piece, v[role["S" if slice_form else "O"]]))
        else:
            chk.ob("R-LIN", SPLIT, False, "the loop can be left in an unexpected way (%s)" % kind, w, key="exit:" + kind)
    chk.floor("splitting cases", sum(1 for c in cases if c[1] == "next"), 1)
    bad, undecided, n_worlds = None, None, 0
    prefixes = [b""] if slice_form else [b"", b"\x00\x00\x01"]
    for pre in prefixes:
        for rem in rems:
            n_worlds += 1
            whole = pre + rem
            wd = bytepred.World(len(rem), {})
            wd.bytes = rem if slice_form else whole
            wd.len = len(wd.bytes)
            it = bytepred.Interp(X if slice_form else data, wd, ints=None if slice_form else {X: len(pre)})
            it.chunk_n = 4
            live = []
            try:
                for conds, kind, piece, nxt in cases:
                    okc = True
                    for c in conds:
                        try:
                            if len(c) == 2:
                                r = it.ev(c[0])
                                if not isinstance(r, bool):
                                    raise bytepred.Unknown("condition %s" % show(c[0])[:80])
                                okc = okc and (r == c[1])
                            else:
                                v = it.iv(c[0])
                                okc = okc and any(lo <= v <= hi for lo, hi in c[2])
                        except bytepred.Undefined:
                            okc = False
                        if not okc:
                            break
                    if okc:
                        live.append((kind, piece, nxt))
                if len(live) != 1:
                    bad = "on remaining bytes %r %d cases apply" % (rem, len(live))
                    break
                kind, piece, nxt = live[0]
                if kind == "exit":
                    # leaving the loop: whatever the function appends afterwards must be exactly the remainder as one final
                    # record, and only when the specification makes the whole remainder one record (or nothing remains)
                    extra = None
                    if piece is not None:
                        for cc2, vv2 in loops.split_cases({0: piece}):
                            okc = True
                            for c in cc2:
                                try:
                                    okc = okc and ((it.ev(c[0]) == c[1]) if len(c) == 2 else any(lo <= it.iv(c[0]) <= hi for lo, hi in c[2]))
                                except bytepred.Undefined:
                                    okc = False
                            if okc:
                                ps = pieces_of(vv2[0])
                                extra = None if ps is None else [it.sv(x) for x in ps]
                                break
                    if extra is None:
                        bad = "what is returned when the loop ends on %r is not the records plus final records" % rem
                        break
                    want_extra = [] if len(rem) == 0 else ([rem] if expected(rem) == len(rem) else None)
                    if (not slice_form and extra != [] and len(rem) != 0) or extra != want_extra:
                        bad = "the loop ends on remaining bytes %r and the function then appends %r (expected %s)" % (rem, extra, want_extra if want_extra is not None else "another iteration")
                        break
                    continue
                if len(rem) == 0:
                    bad = "the loop continues with nothing left"
                    break
                if piece is None:
                    bad = "an iteration does not append exactly one borrowed record"
                    break
                k = expected(rem)
                pb = it.sv(piece)
                if slice_form:
                    rest = it.sv(nxt)
                    okk = pb + rest == rem and len(pb) == k
                else:
                    o2 = it.iv(nxt)
                    okk = pb == rem[:k] and o2 == len(pre) + k
                if not okk:
                    bad = "on remaining bytes %r the record is %r (expected the first %d bytes) and %s" % (rem, pb, k, ("the remainder %r" % rest) if slice_form else ("the offset becomes %d" % o2))
                    break
            except (bytepred.Unknown, bytepred.Undefined) as e:
                undecided = "%s: %s on %r" % (type(e).__name__, e, rem)
                break
        if bad or undecided:
            break
    if undecided:
        chk.blind("R-LIN", SPLIT, "the iteration step could not be folded: %s" % undecided, w)
    else:
        chk.ob("R-LIN", SPLIT, bad is None, "each iteration appends one record = the first min(len, 4 + |i32_be(prefix)|) remaining bytes (all of them when no prefix fits) and keeps exactly the "
               "rest; the loop ends exactly when nothing remains (%d representative remainders: every ordering of length, 4 and 4 + |size|, positive, negative and extreme sizes)" % n_worlds if bad is None else
               "records do not tile the bytes: %s" % bad, w, key="step")
    chk.notes["tiling representatives"] = n_worlds
    if normal_ret is None:
        chk.blind("R-LIN", SPLIT, "result at the loop's normal exit undecided", w)
    else:
        ps = [pieces_of(x) for x in sym._leaves(normal_ret, [])]
        chk.ob("R-WIRE", SPLIT, all(p is not None for p in ps), "returns the records in order (plus, at most, final records decided above)", w, key="returns the records in order")
