"""C01 — volume -> scan conversion conserves every radial."""
from nx import sym, loops, listalg, chrono_model as cm
from nx.spec import *
from rules import common, c09, c07

LEVEL = "other"
SCAN = "nexrad_data::volume::file::File::scan"
REC = "nexrad_data::volume::record::Record::<'a>::"
RECORDS = "nexrad_data::volume::file::File::records"
INTO_RADIAL = "nexrad_decode::messages::digital_radar_data::message::Message::into_radial"
FROM_RADIALS = "nexrad_model::data::sweep::Sweep::from_radials"
OPAQUE = [REC + "compressed", REC + "decompress", REC + "messages", RECORDS, INTO_RADIAL, FROM_RADIALS]
NEXT = "Iterator>::next"


def okv(x):
    return ("vfld", x, "Ok", "0")


def somev(x):
    return ("vfld", x, "Some", "0")


def call(name, *args):
    return ("call", name, tuple(args))


def is_next_some(c, it):
    return len(c) == 3 and c[0][0] == "discr" and c[0][1][0] == "call" and NEXT in c[0][1][1] and c[0][1][2] == (it,) and any(lo <= 1 <= hi for lo, hi in c[2])


def ok_of(c, t):
    return len(c) == 3 and c[0] == ("discr", t) and c[2] == ((0, 0),)


def run(chk, tier):
    prog, info = common.program("all")
    common.note_extraction(chk, info, prog)
    common.vacuity(chk, ['R-LIN', 'R-WIRE'])
    chk.explanation = ("The record/message pipeline of File::scan is summarised by value numbering (callees opaque): the outer loop walks File::records(self) in "
                       "order, decompresses exactly the compressed records, decodes every record's messages, and every failure is an error return; the inner loop "
                       "walks that record's messages in order and on each Digital Radar Data message — and on no other — appends exactly into_radial(message)? to the "
                       "one accumulator that survives across records (list algebra: radials' = radials ++ [r]); the coverage-pattern number is first-wins from "
                       "the volume block; the result is Scan(first VCP or MissingCoveragePattern, from_radials(radials)). Sweep::from_radials' induction (C09) and "
                       "the into_radial field mapping (C07) are re-checked here because the property includes the final elevation and 'not altered'.")
    chk.trust("vec::IntoIter yields in order; Vec::push appends; callees Record::{compressed,decompress,messages}, File::records are decided by C05/C06/C03")
    # 'not altered' reaches into the type-31 decoder: every moment block is delivered to its own slot with a gate buffer of
    # exactly gates x word bytes (the C02 obligations on the decoder the pipeline calls)
    from rules import c02, c03, c05
    # "none lost": every radial of the file reaches the decoder only if the records tile the file and each is inflated whole
    c05.records_and_payloads(chk, prog)
    c03.framing(chk, prog)
    c02.gate_buffer(chk, prog)
    # a metadata frame that is turned away fails the whole conversion: the body decoders of the two decoded metadata types
    from rules import c11, c12
    c11.decoder(chk, prog)
    c12.decoder(chk, prog)
    f31 = prog.fn(c02.FN)
    if f31 is None:
        chk.blind("VN", c02.FN, "type-31 decoder not found")
    else:
        c02.loop_checks(chk, prog, f31, P(f31.local_name(1) or "reader"))
    fn = prog.fn(SCAN)
    if fn is None:
        chk.blind("R-LIN", SCAN, "File::scan not found")
        return
    try:
        ls = loops.summarize(prog, fn, opaque=OPAQUE)
    except sym.Undecided as e:
        chk.blind("R-LIN", SCAN, "pipeline loops could not be summarised: %s" % e, fn.where())
        return
    chk.ob("R-LIN", SCAN, len(ls) == 2 and [l["depth"] for l in ls] == [0, 1], "loop nest depths %s (records loop containing messages loop expected)" % [l["depth"] for l in ls], fn.where(), key="nest")
    if len(ls) != 2:
        return
    outer, inner = ls
    common.pre_loop_returns(chk, "R-LIN", SCAN, prog, fn, outer["head"], opaque=OPAQUE, what="the pass over the records")
    byname = lambda lp: {fn.local_name(l): l for l in lp["tracked"]}
    on, inn = byname(outer), byname(inner)
    need = {"coverage_pattern_number", "radials", "iter"}
    if not need <= set(on) or not need <= set(inn):
        chk.blind("R-LIN", SCAN, "loop state is not (coverage_pattern_number, radials, iterator): %s / %s" % (sorted(on), sorted(inn)), fn.where())
        return
    selfp = P(fn.local_name(1) or "self")
    # ---------------- outer loop
    w = outer["where"]
    Lc, Lr, Li = (P("L%d" % on[k]) for k in ("coverage_pattern_number", "radials", "iter"))
    e0 = outer["entry"]
    chk.ob("R-LIN", SCAN + "#records", e0[on["coverage_pattern_number"]] == NONE and listalg.seq(e0[on["radials"]]) == [], "starts with no VCP and no radials", w, key="init")
    chk.ob("R-LIN", SCAN + "#records", iter_source(e0[on["iter"]]) == call(RECORDS, selfp), "iterates File::records(self) in order", w, key="source")
    rec = somev(call_next(Li))
    nexts = 0
    for conds, kind, val in outer["paths"]:
        if kind == "exit:normal":
            chk.ob("R-LIN", SCAN + "#records", len(conds) == 1, "the records loop ends only when the records are exhausted", w, key="exit-when-exhausted")
        elif kind == "next":
            nexts += 1
            comp = [c for c in conds if len(c) == 2 and c[0] == call(REC + "compressed", rec)]
            okk = bool(conds) and is_next_some(conds[0], Li) and len(comp) == 1
            src = rec
            if okk and comp[0][1] is True:
                d = call(REC + "decompress", rec)
                okk = any(ok_of(c, d) for c in conds)
                src = okv(d)
            elif okk:
                okk = not any(c[0][0] == "discr" and c[0][1][0] == "call" and c[0][1][1].endswith("decompress") for c in conds if len(c) == 3)
            m = call(REC + "messages", src)
            okk = okk and any(ok_of(c, m) for c in conds) and any(len(c) == 3 and c[0][0] == "loopexit" and c[2] == ((0, 0),) for c in conds)
            chk.ob("R-ERR", SCAN + "#records", okk, "a record is decompressed iff compressed(), its messages are decoded, and the way round the loop requires every step to succeed",
                   w, key="next#%d" % nexts)
            for c2, v in loops.split_cases(val):
                r2 = v[on["radials"]]
                c2v = v[on["coverage_pattern_number"]]
                chk.ob("R-LIN", SCAN + "#records", r2[0] == "after_loop" and r2[3] == Lr and c2v[0] == "after_loop" and c2v[3] == Lc,
                       "the accumulator and the VCP pass unchanged into the messages loop and come back only from it", w, key="carry#%d" % nexts)
                it = v[on["iter"]]
                chk.ob("R-LIN", SCAN + "#records", it[0] == "mutated" and NEXT in it[1] and it[3][0] == Li, "one record consumed per iteration", w, key="advance#%d" % nexts)
        elif kind != "exit:error":
            chk.ob("R-ERR", SCAN + "#records", False, "the records loop can be left in an unexpected way (%s)" % kind, w, key="exit:" + kind)
    chk.ob("R-LIN", SCAN + "#records", nexts == 2, "%d ways round the records loop (compressed / uncompressed expected)" % nexts, w, key="two-ways")
    # ---------------- inner loop
    w = inner["where"]
    Lc, Lr, Lm = (P("L%d" % inn[k]) for k in ("coverage_pattern_number", "radials", "iter"))
    ent = inner["entry"][inn["iter"]]
    srcs = set()
    for leaf in sym._leaves(ent, []):
        if leaf[0] == "call" and leaf[1].endswith("into_iter") and len(leaf[2]) == 1:
            # the iterated vector: Ok-payload of Record::messages(..) on every way of getting here
            for x in sym._leaves(leaf[2][0], []):
                if x == ("unreachable",):
                    continue        # error arms never reach the loop
                srcs.add(x[0] == "vfld" and x[2] == "Ok" and x[1][0] == "call" and x[1][1] == REC + "messages")
        else:
            srcs.add(False)
    chk.ob("R-LIN", SCAN + "#messages", srcs == {True}, "iterates the messages decoded from this record, in order", w, key="source")
    msg = somev(call_next(Lm))
    contents = fld(msg, "contents")
    drd = ("vfld", contents, "DigitalRadarData", "0")
    conv = call(INTO_RADIAL, drd)
    n_other = n_drd = 0
    for conds, kind, val in inner["paths"]:
        if kind == "exit:normal":
            chk.ob("R-LIN", SCAN + "#messages", len(conds) == 1, "the messages loop ends only when the messages are exhausted", w, key="exit-when-exhausted")
        elif kind == "exit:error":
            chk.ob("R-ERR", SCAN + "#messages", any(c[0] == ("discr", conv) for c in conds if len(c) == 3), "the only error exit is a failed radial conversion", w, key="error-exit")
        elif kind == "next":
            is_drd = any(len(c) == 3 and c[0] == ("discr", contents) and c[2] == ((1, 1),) for c in conds)
            for c2, v in loops.split_cases(val):
                r2 = listalg.seq(v[inn["radials"]])
                if is_drd:
                    n_drd += 1
                    want = [("atom", Lr), ("elem", okv(conv))]
                    chk.ob("R-LIN", SCAN + "#messages", r2 == want and any(ok_of(c, conv) for c in conds),
                           "radials' = radials ++ [into_radial(this message)?]" if r2 == want else "on a radar-data message the accumulator becomes %s, expected radials ++ [into_radial(message)]" % listalg.show(r2),
                           w, key="drd#%d:push" % n_drd)
                    # first-wins VCP
                    cv = v[inn["coverage_pattern_number"]]
                    vb = fld(drd, "volume_data_block")
                    # specification for every combination of "a VCP is already known" x "this radial carries a volume block": the
                    # known one wins; compared on the common refinement of the cases, under what this path already fixes
                    want_c = sym.opt_match(Lc, lambda x: some(x), lambda: sym.opt_match(vb, lambda b: some(fld(b, "volume_coverage_pattern_number")), lambda: NONE))
                    known = {c[0]: c[2] for c in c2 if len(c) == 3}
                    subst = {c[0]: (TRUE if c[1] else FALSE) for c in c2 if len(c) == 2}
                    try:
                        cells = loops.split_cases({0: cv, 1: want_c}, _known=known, _sub=subst)
                        okv_ = bool(cells)
                        for cc, vv in cells:
                            had = any(len(c) == 3 and c[0] == ("discr", Lc) and c[2] == ((1, 1),) for c in tuple(c2) + tuple(cc))
                            none = any(len(c) == 3 and c[0] == ("discr", Lc) and not any(lo <= 1 <= hi for lo, hi in c[2]) for c in tuple(c2) + tuple(cc))
                            eta = {Lc: some(somev(Lc))} if had else ({Lc: NONE} if none else {})
                            if not sym.sem_eq(sym.rebuild(vv[0], eta), sym.rebuild(vv[1], eta)):
                                okv_ = False
                    except sym.Undecided:
                        okv_ = False
                    chk.ob("R-WIRE", SCAN + "#messages", okv_, "VCP number is taken from the first volume block only" if okv_ else
                           "VCP number is not 'the first volume block's, kept once known': on this path it becomes %s" % show(cv)[:200], w, key="drd#%d:vcp" % n_drd)
                else:
                    n_other += 1
                    chk.ob("R-LIN", SCAN + "#messages", r2 == [("atom", Lr)] and v[inn["coverage_pattern_number"]] == Lc,
                           "messages other than radar data contribute neither radials nor a VCP", w, key="other#%d" % n_other)
                it = v[inn["iter"]]
                chk.ob("R-LIN", SCAN + "#messages", it[0] == "mutated" and NEXT in it[1] and it[3][0] == Lm, "one message consumed per iteration", w, key="advance")
        else:
            chk.ob("R-ERR", SCAN + "#messages", False, "the messages loop can be left in an unexpected way (%s)" % kind, w, key="exit:" + kind)
    chk.ob("R-LIN", SCAN + "#messages", n_drd >= 1 and n_other >= 1, "both kinds of message are handled (%d radar-data cases, %d other)" % (n_drd, n_other), w, key="kinds")
    # ---------------- result
    try:
        ret = loops.exit_value(prog, fn, outer, opaque=OPAQUE)
    except sym.Undecided as e:
        chk.blind("R-WIRE", SCAN, "result could not be evaluated: %s" % e, fn.where())
        ret = None
    if ret is not None:
        Lc, Lr = P("L%d" % on["coverage_pattern_number"]), P("L%d" % on["radials"])
        SC = "nexrad_model::data::scan::Scan"
        want = sym.opt_match(Lc, lambda x: ok(adt(SC, "Scan", (("coverage_pattern_number", x), ("sweeps", call(FROM_RADIALS, Lr))))),
                             lambda: err(adt("nexrad_data::result::Error", "MissingCoveragePattern", ())))
        expect(chk, "R-WIRE", SCAN, ret, want, fn.where(), "Scan(first VCP or MissingCoveragePattern error, Sweep::from_radials(all radials))")
    # ---------------- prerequisites re-checked here
    c09.from_radials(chk, prog)
    ev = cm.evaluator(prog)
    t, f2 = eval_or_blind(chk, ev, "VN", INTO_RADIAL)
    if t is not None:
        c07.report_radial(chk, INTO_RADIAL, t, c07.radial_spec(), f2.where())


def call_next(it):
    return ("call", "<alloc::vec::into_iter::IntoIter<T, A> as core::iter::traits::iterator::Iterator>::next", (it,))
