"""C08 — ICD date/time fields decode to the exact UTC instant."""
from nx import sym, panics, chrono_model as cm
from nx.spec import *
from rules import common

LEVEL = "proof"
D = "nexrad_decode::messages::"
# accessor -> (date field, its wire type, time field, its wire type, unit in ms)
ACCESSORS = {
    D + "message_header::MessageHeader::date_time": ("date", "u16", "time", "u32", 1),
    D + "digital_radar_data::header::Header::date_time": ("date", "u16", "time", "u32", 1),
    D + "rda_status_data::message::Message::bypass_map_generation_date_time": ("bypass_map_generation_date", "u16", "bypass_map_generation_time", "u16", 60_000),
    D + "rda_status_data::message::Message::clutter_filter_map_generation_date_time":
        ("clutter_filter_map_generation_date", "u16", "clutter_filter_map_generation_time", "u16", 60_000),
    D + "clutter_filter_map::header::Header::date_time": ("map_generation_date", "u16", "map_generation_time", "u16", 60_000),
    "nexrad_data::volume::header::Header::date_time": ("date", "u32", "time", "u32", 1),
}
COPIES = ["nexrad_decode::util::get_datetime", "nexrad_data::volume::util::get_datetime"]


def accessor(chk, prog, ev, acc, no_panic=False):
    """one date-time accessor held to its closed form (also used by the checks of the messages that carry it)"""
    dfield, dty, tfield, tty, unit = ACCESSORS[acc]
    got, fn = eval_or_blind(chk, ev, "VN", acc)
    if got is None:
        return 0
    d16 = F(dfield) if dty == "u16" else cast(F(dfield), dty, "u16")
    want = cm.spec_instant(cast(d16, "u16", "i64"), unit, cast(F(tfield), tty, "i64"))
    expect(chk, "VN", acc, got, want, fn.where(), "instant = epoch + (%s - 1) days + %s x %d ms" % (dfield, tfield, unit))
    if no_panic:
        panics.check_no_panic(chk, prog, [c for c in COPIES if prog.fn(c) is not None] + [acc], "date-time accessor")
    return 1


def run(chk, tier):
    prog, info = common.program("all")
    common.note_extraction(chk, info, prog)
    common.vacuity(chk, ['R-PANIC', 'R-WIRE'])
    chk.explanation = ("Value numbering with five chrono axioms (A1 from_ymd_opt on a valid constant date = its day number, computed by the checker's own "
                       "proleptic-Gregorian routine; A2 date + days(k) = the date k days later; A3 midnight constant; A4 time + duration wraps mod 24 h and is "
                       "total; A5 from_naive_utc_and_offset(date,time,Utc) = date*86400 s + time) reduces every accessor to the canonical term "
                       "instant(day(1970-01-01) - 1 + zext(d), dur(unit, zext(t))). The obligation is equality with the specified closed form for the "
                       "accessor's (date field, time field, unit); both get_datetime copies are checked against the same closed form (R-SIB); "
                       "R-PANIC discharges every panic source for all field values. Strict monotonicity in (d,t) for t < 24 h is a corollary of the closed form.")
    for a in ("A1 NaiveDate::from_ymd_opt(valid constants) = Some(day number)", "A2 NaiveDate + TimeDelta::days(k) = date k days later when in range",
              "A3 NaiveTime::from_num_seconds_from_midnight_opt(0,0) = Some(00:00:00)", "A4 NaiveTime + TimeDelta = (time + delta) mod 24h, total",
              "A5 DateTime::from_naive_utc_and_offset(NaiveDateTime::new(d,t), Utc) = d*86400s + t",
              "chrono 0.4 range preconditions of TimeDelta constructors and NaiveDate + TimeDelta (rules/tables/lib.py)"):
        chk.trust(a)
    chk.assume("volume::Header::date_time narrows its 32-bit date with `as u16`: the identity on the property's domain d in 1..=65535")
    ev = cm.evaluator(prog)

    # the two copies, with symbolic (mjd, duration) parameters
    copies = {}
    for c in COPIES:
        fn = prog.fn(c)
        if fn is None:
            # a private helper: renamed, merged or inlined. Its meaning is then decided where it is used — every accessor
            # below is held to the closed form on its own (a helper outside the rules' vocabulary is analysed inside its callers)
            chk.notes.setdefault("helpers not found (covered through the accessors)", []).append(c)
            continue
        mjd_ty = fn.locals[1]["ty"]["s"]
        t_ty = fn.locals[2]["ty"]["s"] if fn.arg_count >= 2 else "?"
        mjd, dur = P("mjd"), P("dur")
        got, _ = eval_or_blind(chk, ev, "VN", c, [mjd, dur])
        if got is None:
            continue
        # the time-of-day parameter is a TimeDelta, or a raw unsigned millisecond count
        tod = dur if t_ty not in sym.INT_TYS else ("dur", 1, cast(dur, t_ty, "i64"))
        if t_ty in sym.INT_TYS:
            chk.ob("VN", c, sym.ty_range(t_ty)[0] == 0, "raw time-of-day parameter is unsigned (%s)" % t_ty, fn.where(), key="time-type")
        want = some(("instant", ("date", cm.canon_base(cast(mjd, mjd_ty, "i64")), cm.EPOCH - 1), ("time", 0, tod)))
        chk.ob("VN", c, mjd_ty == "u16", "day-count parameter is %s (the ICD field is a 16-bit modified Julian date)" % mjd_ty, fn.where(), key="mjd-type")
        expect(chk, "VN", c, got, want, fn.where(), "closed form 1970-01-01 + (d-1) days + t")
        copies[c] = (t_ty, got)
    if len(copies) == 2 and len({v[0] for v in copies.values()}) == 2:
        chk.notes["get_datetime copies"] = "the two copies take their time of day in different types; each is held to the closed form on its own"
    elif len(copies) == 2:
        a, b = [copies[c][1] for c in COPIES]
        expect(chk, "R-SIB", "get_datetime(decode)~get_datetime(data)", a, b, None, "the two get_datetime copies agree")

    # the accessors
    n = 0
    for acc in ACCESSORS:
        n += accessor(chk, prog, ev, acc)
    chk.floor("date-time accessors", n, 6)

    # Radial::collection_timestamp is the header's instant in epoch milliseconds (wiring is C07's; the unit is checked here)
    panics.check_no_panic(chk, prog, [c for c in COPIES if prog.fn(c) is not None] + list(ACCESSORS), "date-time accessors")
