"""C14 — message summaries partition the message list and count it faithfully (necessary conditions)."""
import os
from nx import sym, loops, listalg, chrono_model as cm
from nx.spec import *
from rules import common

LEVEL = "other"
S_ = "nexrad_decode::summarize::"
M = "nexrad_decode::messages::"
FN = S_ + "messages"
MT = M + "message_type::MessageType"
GS = S_ + "group::MessageGroupSummary"
OPAQUE = [M + "message_header::MessageHeader::message_type", M + "message_header::MessageHeader::date_time", S_ + "rda::extract_rda_status_info",
          S_ + "vcp::extract_vcp_info", M + "digital_radar_data::volume_data_block::VolumeDataBlock::volume_coverage_pattern"]
FIELDS = ["message_type", "start_time", "end_time", "message_count", "elevation_number", "start_azimuth", "end_azimuth", "is_continued",
          "start_message_index", "end_message_index"]
KINDS = {"status": (0, "RDAStatusData"), "radial": (1, "DigitalRadarData"), "vcp": (3, "VolumeCoveragePattern")}
TYPE_OF = {"status": "RDAStatusData", "radial": "RDADigitalRadarDataGenericFormat", "vcp": "RDAVolumeCoveragePattern"}


def call(name, *args):
    return ("call", name, tuple(args))


def vcp_table(chk, prog):
    """the VCP set is built from VolumeDataBlock::volume_coverage_pattern(): every number it accepts maps to the variant
    that carries that number in its name"""
    p = M + "digital_radar_data::volume_data_block::VolumeDataBlock::volume_coverage_pattern"
    fn = prog.fn(p)
    if fn is None:
        chk.blind("R-TABLE", p, "accessor not found")
        return
    try:
        t = sym.Evaluator(prog).eval_self_fn(p)
    except sym.Undecided as e:
        chk.blind("R-TABLE", p, "accessor undecided: %s" % e, fn.where())
        return
    rows, bad = 0, []
    if not (t[0] == "cases" and t[1] == F("volume_coverage_pattern_number")):
        chk.blind("R-TABLE", p, "accessor is not a table over volume_coverage_pattern_number: %s" % show(t)[:160], fn.where())
        return
    for rs, leaf in t[3]:
        for lf in sym._leaves(leaf, []):
            if isinstance(lf, tuple) and lf and lf[0] == "adt" and lf[2].startswith("VCP"):
                rows += 1
                if not all(lo == hi and lf[2] == "VCP%d" % lo for lo, hi in rs):
                    bad.append("%s -> %s" % (rs, lf[2]))
    chk.ob("R-TABLE", p, not bad, "every accepted pattern number n maps to the variant VCPn (%d rows)" % rows if not bad else
           "pattern numbers map to the wrong variant: %s" % "; ".join(bad)[:200], fn.where(), key="vcp-table")
    chk.floor("VCP table rows", rows, 6)


def run(chk, tier):
    prog, info = common.program("all")
    common.note_extraction(chk, info, prog)
    common.vacuity(chk, ['R-LIN', 'R-TABLE'])
    chk.explanation = ("Necessary conditions of the partition property, decided on the value-numbered summary of the summarising loop (one iteration as a closed form "
                       "over the open group G, the summary S and the enumerated message (i, m)), split jointly on message kind, presence of G and the continuation "
                       "tests: every case either extends G (count + 1, end index = i, start and type kept, nothing pushed) — allowed only under that kind's "
                       "continuation test — or starts a group (count 1, start = end = i, the kind's type) after pushing the old G (flush-before-overwrite); "
                       "status and VCP messages never extend; is_continued is `any earlier pushed group is type 31 with this elevation` for new radial groups and false "
                       "otherwise; the time range is updated by the same formula in the radial and status arms and nowhere else; first/last times and azimuths follow "
                       "the start/extend discipline; the VCP set receives the volume block's pattern; at end of input the open group is pushed. Maximality of runs "
                       "and the converse of is_continued as input/output facts are not derived.")
    chk.trust("slice::Iter/Enumerate yield (index, element) in order; Vec::push appends; HashSet::insert adds the element")
    vcp_table(chk, prog)
    # the groups' times and the collection-time range are the message headers' date-times: that accessor's closed form (C08)
    from rules import c08
    chk.floor("message-header date-time accessor", c08.accessor(chk, prog, cm.evaluator(prog), M + "message_header::MessageHeader::date_time", no_panic=True), 1)
    # groups are runs of one message type, and the type of a message is what MessageHeader::message_type makes of the code
    # byte: two codes mapped to one variant merge adjacent runs (C10's table)
    from rules import c10
    c10.type_table(chk, prog, cm.evaluator(prog))
    fn = prog.fn(FN)
    if fn is None:
        chk.blind("VN", FN, "summarize::messages not found")
        return
    try:
        ls = loops.summarize(prog, fn, opaque=OPAQUE)
    except sym.Undecided as e:
        chk.blind("VN", FN, "the summarising loop could not be summarised: %s" % e, fn.where())
        return
    top = [l for l in ls if l["depth"] == 0]
    chk.ob("VN", FN, len(top) == 1, "%d top-level loop(s) (one expected: the pass over the messages)" % len(top), fn.where(), key="one-loop")
    if len(top) != 1:
        return
    lp = top[0]
    w = lp["where"]
    common.pre_loop_returns(chk, "R-LIN", FN, prog, fn, lp["head"], opaque=OPAQUE, empty_of=P(fn.local_name(1) or "messages"),
                            empty_ok=lambda l_: l_[0] == "adt" and listalg.seq(fld(l_, "message_groups")) == [] and fld(l_, "earliest_collection_time") == NONE
                            and fld(l_, "latest_collection_time") == NONE, what="the pass over the messages")
    names = {fn.local_name(l): l for l in lp["tracked"]}
    if not {"summary", "current_group", "iter"} <= set(names):
        chk.blind("VN", FN, "loop state is not (summary, current_group, iterator): %s" % sorted(names), w)
        return
    ls_, lg, li = names["summary"], names["current_group"], names["iter"]
    S, G, I = P("L%d" % ls_), P("L%d" % lg), P("L%d" % li)
    e0 = lp["entry"]
    okk = e0[lg] == NONE and listalg.seq(fld(e0[ls_], "message_groups")) == [] and fld(e0[ls_], "earliest_collection_time") == NONE and fld(e0[ls_], "latest_collection_time") == NONE
    chk.ob("R-LIN", FN, okk, "starts with no open group, no groups and no time range", w, key="init")
    it0 = e0[li]
    chk.ob("R-LIN", FN, it0[0] == "iop" or (it0[0] == "call" and "enumerate" in it0[1]) or "enumerate" in repr(it0)[:200], "iterates the messages with their indices, in order", w, key="source")
    nexts = [(c, v) for c, k, v in lp["paths"] if k == "next"]
    chk.ob("R-LIN", FN, len(nexts) == 1 and all(k in ("next", "exit:normal") for c, k, v in lp["paths"]), "one way round the loop and only the exhausted-iterator exit", w, key="loop-shape")
    if len(nexts) != 1:
        return
    conds0, val = nexts[0]
    nxt = conds0[0][0][1] if conds0 and conds0[0][0][0] == "discr" else None
    item = ("vfld", nxt, "Some", "0")
    idx, msg = fld(item, "0"), fld(item, "1")
    contents = fld(msg, "contents")
    hdr = fld(msg, "header")
    mtype = call(OPAQUE[0], hdr)
    mtime = call(OPAQUE[1], hdr)
    g1 = sym.vfld(val[lg], "Some", "0")
    gp = ("vfld", G, "Some", "0")
    ev = sym.Evaluator(prog)
    proj = {"disc": ev.discriminant(val[lg]), "groups": fld(val[ls_], "message_groups")}
    for f in FIELDS:
        proj[f] = fld(g1, f)
    try:
        cases = loops.split_cases(proj, limit=600)
    except sym.Undecided as e:
        chk.blind("VN", FN, "too many joint cases: %s" % e, w)
        return
    mtd = {v["name"]: int(v["discr"]) for v in prog.adts[MT]["variants"]} if MT in prog.adts else {}
    t31 = mtd.get("RDADigitalRadarDataGenericFormat")
    drd = ("vfld", contents, "DigitalRadarData", "0")
    elev = fld(fld(drd, "header"), "elevation_number")
    az = fld(fld(drd, "header"), "azimuth_angle")
    n = {"extend": 0, "new": 0}
    seen_kinds = set()
    for c2, v in cases:
        kind = "other"
        for c in c2:
            if len(c) == 3 and c[0] == ("discr", contents):
                for k, (d, _) in KINDS.items():
                    if c[2] == ((d, d),):
                        kind = k
        seen_kinds.add(kind)
        g_some = any(len(c) == 3 and c[0] == ("discr", G) and c[2] == ((1, 1),) for c in c2)
        g_none = any(len(c) == 3 and c[0] == ("discr", G) and not any(lo <= 1 <= hi for lo, hi in c[2]) for c in c2)
        groups = listalg.seq(v["groups"])
        if groups is not None and (g_some or g_none):
            # `extend(groups, G.take())`: an Option contributes its payload when present and nothing when absent
            groups = [(("elem", gp) if g_some else None) if x == ("atom", G) else x for x in groups]
            groups = [x for x in groups if x is not None]
        base = [("atom", fld(S, "message_groups"))]
        pushed_old = groups == base + [("elem", gp)]
        unchanged = groups == base
        ext = (v["disc"] == ("discr", G) and v["message_count"] == binop("Add", fld(gp, "message_count"), C(1, "usize"), "usize") and v["end_message_index"] == idx
               and v["start_message_index"] == fld(gp, "start_message_index") and v["message_type"] == fld(gp, "message_type") and unchanged)
        exp_type = unit_variant(MT, TYPE_OF[kind]) if kind in TYPE_OF else mtype
        new = (v["disc"] == C(1, "isize") and v["message_count"] == C(1, "usize") and v["start_message_index"] == idx and v["end_message_index"] == idx
               and (v["message_type"] == exp_type or (kind == "other" and equal_under(v["message_type"], exp_type, c2, gp, mtype))))
        tag = "%s#%d" % (kind, sum(1 for k2 in (n["extend"], n["new"])) + n["extend"] + n["new"])
        if ext and not new:
            n["extend"] += 1
            allowed = g_some and continuation_holds(kind, c2, G, gp, mtype, elev, t31)
            chk.ob("R-TABLE", FN, allowed, "a %s message extends the open group only under its continuation test" % kind if allowed else
                   "a %s message extends the open group without its continuation test holding (%s)" % (kind, [show(canon_calls(c[0]))[:50] for c in c2]), w, key="extend-allowed:" + tag)
            chk.ob("R-WIRE", FN, v["end_time"] == mtime and v["start_time"] == fld(gp, "start_time") and v["is_continued"] == fld(gp, "is_continued")
                   and (kind != "radial" or (v["end_azimuth"] == some(az) and v["start_azimuth"] == fld(gp, "start_azimuth"))),
                   "extending updates the end time%s from this message and keeps the start values" % ("/azimuth" if kind == "radial" else ""), w, key="extend-fields:" + tag)
        elif new and not ext:
            n["new"] += 1
            flush = pushed_old if g_some else unchanged
            chk.ob("R-LIN", FN, bool(flush and (g_some or g_none)), "a new group is started only after the open group (if any) was pushed, and nothing else is pushed" if flush else
                   "starting a group: pushed groups = %s (open group %s)" % (listalg.show(groups), "exists" if g_some else "absent"), w, key="flush-before-overwrite:" + tag)
            okf = v["start_time"] == mtime and v["end_time"] == mtime
            if kind == "radial":
                okf = okf and v["elevation_number"] == some(elev) and v["start_azimuth"] == some(az) and v["end_azimuth"] == some(az)
            else:
                okf = okf and v["elevation_number"] == NONE
            chk.ob("R-WIRE", FN, okf, "a new %s group takes its first/last values from this message" % kind, w, key="new-fields:" + tag)
            # is_continued
            if kind == "radial":
                okc = continued_ok(ev, v["is_continued"], S, elev, t31, c2, v["groups"])
                chk.ob("VN", FN, okc, "is_continued = some already-pushed group is type 31 with this elevation number" if okc else
                       "is_continued is %s" % show(canon_calls(v["is_continued"]))[:200], w, key="is-continued:" + tag)
            else:
                chk.ob("VN", FN, v["is_continued"] == FALSE, "non-radial groups are never marked continued", w, key="is-continued:" + tag)
            if kind in ("status", "vcp"):
                pass
        else:
            chk.ob("R-TABLE", FN, False, "a %s message neither extends the open group (count+1, end=i) nor starts a fresh one (count 1, start=end=i): count=%s start=%s end=%s" % (
                kind, show(v["message_count"])[:60], show(v["start_message_index"])[:60], show(v["end_message_index"])[:60]), w, key="extend-or-new:" + tag)
        if kind in ("status", "vcp"):
            chk.ob("R-TABLE", FN, not ext, "every %s message forms its own group" % kind, w, key="own-group:" + tag)
    chk.ob("R-TABLE", FN, seen_kinds >= {"status", "radial", "vcp", "other"}, "all four message kinds are handled (%s)" % sorted(seen_kinds), w, key="kinds")
    chk.floor("joint cases", len(cases), 12)
    chk.ob("R-SIB", FN, n["extend"] >= 2 and n["new"] >= 6, "%d extending and %d group-starting cases" % (n["extend"], n["new"]), w, key="case-counts")

    # ---- time range: same update in the radial and status arms, none elsewhere; VCP set
    times(chk, ev, val[ls_], S, contents, mtime, drd, w)
    data_types(chk, prog, ls)
    # ---- end of input: the open group is pushed
    try:
        ret = loops.exit_value(prog, fn, lp, opaque=OPAQUE)
    except sym.Undecided as e:
        chk.blind("R-LIN", FN, "result undecided: %s" % e, w)
        return
    for some_g, rs in ((True, ((1, 1),)), (False, sym.rs_compl(((1, 1),), "isize"))):
        known = {("discr", G): rs}
        gv = sym.prune(sym.rebuild(fld(ret, "message_groups"), {}, known), known)
        want = [("atom", fld(S, "message_groups"))] + ([("elem", gp)] if some_g else [])
        got = listalg.seq(gv)
        if got is not None:
            # `groups.extend(open_group)`: an Option contributes its payload when present and nothing when absent
            got = [(("elem", gp) if some_g else None) if x == ("atom", G) else x for x in got]
            got = [x for x in got if x is not None]
        chk.ob("R-LIN", FN, got == want, "at end of input the open group is %s" % ("pushed" if some_g else "absent and nothing is pushed") if got == want else
               "at end of input the groups are %s although the open group %s: the last group is lost" % (listalg.show(got), "exists" if some_g else "is absent"), w, key="final-flush:%s" % some_g)


def equal_under(t, exp, conds, gp, mtype):
    """in the `other` arm a new group may be typed by the open group's type when the path condition says the two are equal"""
    return t == exp


def continuation_holds(kind, conds, G, gp, mtype, elev, t31):
    if kind == "radial":
        a = any(len(c) == 3 and c[0] == ("discr", fld(gp, "message_type")) and c[2] == ((t31, t31),) for c in conds)
        b = any(len(c) == 2 and c[1] is True and c[0][0] == "bin" and c[0][1] == "Eq" and set(c[0][2:4]) == {some(elev), fld(gp, "elevation_number")} for c in conds)
        return a and b
    if kind == "other":
        # types equal: discriminants equal (and payloads equal for Unknown(code))
        eqd = [c for c in conds if len(c) == 2 and c[0][0] == "bin" and c[0][1] == "Eq" and ("discr", mtype) in c[0][2:4] and ("discr", fld(gp, "message_type")) in c[0][2:4]]
        if not eqd or eqd[0][1] is not True:
            return False
        neq_payload = [c for c in conds if len(c) == 2 and c[1] is False and c[0][0] == "bin" and c[0][1] == "Eq" and "Unknown" in repr(c[0])]
        return not neq_payload
    return False


def continued_ok(ev, t, S, elev, t31, conds, groups_now):
    """is_continued must be `any(group in the groups pushed so far: type 31 and this elevation)`; it may be the constant
    false only on the path where those groups are known to be empty"""
    if t == FALSE:
        return any(len(c) == 2 and c[1] is True and c[0][0] == "call" and c[0][1].endswith("::is_empty") for c in conds)
    a = t
    if not (a[0] == "call" and a[1].endswith("::any") and "Iterator" in a[1]):
        return False
    src, clo = a[2]
    # the iterated collection is exactly the groups as they stand after this iteration's flush (order of iteration is irrelevant to `any`)
    inner = src
    while inner[0] in ("iop", "iter"):
        inner = inner[2] if inner[0] == "iop" else inner[1]
    if inner != groups_now and not (listalg.seq(inner) is not None and listalg.seq(inner) == listalg.seq(groups_now)):
        if os.environ.get("NX_DEBUG"):
            print("DEBUG continued_ok inner:", show(inner)[:300], "| now:", show(groups_now)[:300])
        return False
    try:
        body = ev.apply_closure(clo, [sym.ELEM], 0)
    except sym.Undecided as e:
        if os.environ.get("NX_DEBUG"):
            print("DEBUG continued_ok undecided:", e, show(clo)[:300])
        return False
    if os.environ.get("NX_DEBUG"):
        print("DEBUG continued_ok body:", show(sym.prune(body))[:600])
    dty = body[2] if body[0] == "cases" else "isize"
    want = mk_and(mk_in(("discr", fld(sym.ELEM, "message_type")), dty, ((t31, t31),)), sym._m_eq(None, [some(elev), fld(sym.ELEM, "elevation_number")], None, 0))
    return sym.prune(body) == sym.prune(want) or canon_calls(sym.prune(body)) == canon_calls(sym.prune(want))


def times(chk, ev, s1, S, contents, mtime, drd, w):
    proj = {"e": fld(s1, "earliest_collection_time"), "l": fld(s1, "latest_collection_time")}
    by_kind = {}
    for kind, (d, _) in list(KINDS.items()) + [("other", (2, ""))]:
        known = {("discr", contents): ((d, d),)}
        by_kind[kind] = {k: sym.prune(sym.rebuild(v, {}, known), known) for k, v in proj.items()}
    e0, l0 = fld(S, "earliest_collection_time"), fld(S, "latest_collection_time")
    chk.ob("R-SIB", FN, by_kind["radial"] == by_kind["status"], "the collection-time range is updated by the same formula for radial and status messages", w, key="time-update-agrees")
    chk.ob("R-WIRE", FN, by_kind["vcp"] == {"e": e0, "l": l0} and by_kind["other"] == {"e": e0, "l": l0}, "other messages leave the time range unchanged", w, key="time-unchanged-elsewhere")
    for k, old in (("e", e0), ("l", l0)):
        t = by_kind["radial"][k]
        leaves = {repr(x) for x in sym._leaves(t, [])}
        payload = ("vfld", mtime, "Some", "0")
        okk = leaves <= {repr(old), repr(some(payload))} and repr(some(payload)) in leaves
        chk.ob("R-WIRE", FN, okk, "the %s time is either kept or replaced by this message's time" % ("earliest" if k == "e" else "latest"), w, key="time-values:" + k)
        ats = sym.atoms(t)
    # both bounds are updated independently (two separate tests), each depending on its own old bound
    te, tl = by_kind["radial"]["e"], by_kind["radial"]["l"]
    dep_e = {a for a in sym.atoms(te) if a in (e0, l0)}
    dep_l = {a for a in sym.atoms(tl) if a in (e0, l0)}
    chk.ob("R-WIRE", FN, dep_e == {e0} and dep_l == {l0}, "earliest depends only on the old earliest bound and latest only on the old latest bound (independent updates)", w, key="time-independent")
    # VCP set
    vb = fld(drd, "volume_data_block")
    known = {("discr", contents): ((1, 1),), ("discr", vb): ((1, 1),)}
    sset = sym.prune(sym.rebuild(fld(s1, "volume_coverage_patterns"), {}, known), known)
    pat = call(OPAQUE[4], ("vfld", vb, "Some", "0"))
    okk = sset[0] == "mutated" and sset[1].endswith("::insert") and sset[3][0] == fld(S, "volume_coverage_patterns") and sset[3][1] == pat
    chk.ob("R-WIRE", FN, okk, "the VCP set receives the pattern named by the message's volume block", w, key="vcp-set")
    known2 = {("discr", contents): ((1, 1),), ("discr", vb): ((0, 0),)}
    sset2 = sym.prune(sym.rebuild(fld(s1, "volume_coverage_patterns"), {}, known2), known2)
    chk.ob("R-WIRE", FN, sset2 == fld(S, "volume_coverage_patterns"), "without a volume block the VCP set is unchanged", w, key="vcp-set-unchanged")


DATA_TYPES = {"reflectivity_data_block": "Reflectivity", "velocity_data_block": "Velocity", "spectrum_width_data_block": "Spectrum Width",
              "differential_reflectivity_data_block": "Differential Reflectivity", "differential_phase_data_block": "Differential Phase",
              "correlation_coefficient_data_block": "Correlation Coefficient", "specific_diff_phase_data_block": "Specific Differential Phase"}


MAP_TY = "&mut std::collections::hash::map::HashMap<alloc::string::String, usize>"


def table_form(chk, prog, fn, ls):
    """The counts driven by a table: one inner loop over a constant array of (name, block) pairs whose body is
    `if block.is_some() { count(name) }`. Decided on values: the loop body is evaluated once with the per-group map behind a
    fresh reference, giving (guard(elem), key(elem)) of the single counting path; instantiating elem with each row of the
    array (the loop's entry value) yields the block -> name pairs. Returns {block field: name} or None when the shape is not this."""
    from nx.ir import callee_of, op_local
    inner = [l for l in ls if l["depth"] == 1]
    for lp in inner:
        body = lp["body"] if "body" in lp else fn.loops()[lp["head"]]
        maps = set()
        for b in body:
            for st in fn.blocks[b]["stmts"]:
                if st["s"] == "assign" and st.get("rv") == "ref" and st["pl"]["p"] == ["*"] and fn.locals[st["pl"]["l"]]["ty"]["s"] == MAP_TY:
                    maps.add(st["pl"]["l"])
        if len(maps) != 1:
            continue
        m = next(iter(maps))
        if m in loops.assigned_in(fn, body):
            continue
        PS = len(fn.locals) + 7
        MAPV = P("MAP")
        its = [l for l in lp["tracked"]]
        src = None
        for l in its:
            cand = iter_source(lp["entry"].get(l))
            if isinstance(cand, tuple) and cand and cand[0] == "array":
                src, itl = cand, l
        if src is None:
            continue
        env0 = {l: v for l, v in lp["entry"].items() if l not in loops.assigned_in(fn, body)}
        env0[m] = ("mref", PS, ())
        env0[PS] = MAPV
        try:
            tree, ev = loops.iteration(prog, fn, lp["head"], set(body), list(lp["tracked"]) + [PS], env0, opaque=OPAQUE)
        except sym.Undecided as e:
            chk.blind("VN", FN, "table-driven counting loop undecided: %s" % e, lp["where"])
            return {}
        counting, idle = [], []
        for conds, leaf in loops.paths(tree):
            if not (isinstance(leaf, tuple) and leaf and leaf[0] == "next"):
                continue
            for c2, mv in loops.paths(leaf[1][-1]):          # the branches were merged at their join: the map's value is itself a case tree
                (idle if mv == MAPV else counting).append((tuple(conds) + tuple(c2), mv))
        if len(counting) != 1 or len(idle) != 1:
            chk.ob("R-TABLE", FN, False, "the counting loop has %d counting and %d idle way(s) round (one each expected)" % (len(counting), len(idle)), lp["where"], key="data-type-loop")
            return {}
        conds, mv = counting[0]
        okm = mv[0] == "mutated" and mv[2] == 0 and mv[3][0] == MAPV and "HashMap" in mv[1] and (mv[1].endswith("::entry") or mv[1].endswith("::insert"))
        if not okm:
            chk.ob("R-TABLE", FN, False, "the counting path changes the map by %s" % show(mv)[:120], lp["where"], key="data-type-loop")
            return {}
        key = mv[3][1]
        nxt = [c[0][1] for c in conds if len(c) == 3 and c[0][0] == "discr" and c[0][1][0] == "call" and c[0][1][1].endswith("::next") and c[2] == ((1, 1),)]
        guards = []
        for c in conds:
            if len(c) == 2 and c[1] is True and c[0][0] == "call" and c[0][1].endswith("::is_some"):
                guards.append(c[0][2][0])
            elif len(c) == 3 and c[0][0] == "discr" and c[2] == ((1, 1),) and not (c[0][1][0] == "call" and c[0][1][1].endswith("::next")):
                guards.append(c[0][1])
        # the idle path must be the negation of the same guard
        iconds = idle[0][0]
        neg = [c for c in iconds if (len(c) == 2 and c[1] is False and c[0][0] == "call" and c[0][1].endswith("::is_some") and c[0][2][0] in guards) or
               (len(c) == 3 and c[0][0] == "discr" and c[0][1] in guards and not any(lo <= 1 <= hi for lo, hi in c[2]))]
        if len(nxt) != 1 or len(guards) != 1 or len(neg) != 1:
            chk.ob("R-TABLE", FN, False, "the counting path is not guarded by exactly one presence test of the row's block (%d guard(s))" % len(guards), lp["where"], key="data-type-loop")
            return {}
        elem = ("vfld", nxt[0], "Some", "0")
        found = {}
        for row in src[1]:
            k_i = sym.rebuild(key, {elem: row})
            g_i = sym.rebuild(guards[0], {elem: row})
            name = k_i[1] if sym.is_c(k_i) and isinstance(k_i[1], str) else None
            field = g_i[2] if g_i[0] == "fld" else None
            if field is not None and field in found:
                field = field + " (again)"          # two rows watch the same block: reported through the table comparison
            if name is None or field is None:
                chk.ob("R-TABLE", FN, False, "a table row does not pair a constant name with a message block: key %s, block %s" % (show(k_i)[:60], show(g_i)[:80]), lp["where"], key="data-type-loop")
                return {}
            found[field] = name
        # the increment: entry(key).or_insert(0) += 1, or insert(key, get(key).unwrap_or(0) + 1)
        if mv[1].endswith("::entry"):
            slots = [tt["dest"]["l"] for b, tt in fn.calls() if b in body and "Entry" in callee_of(tt) and callee_of(tt).endswith("::or_insert") and
                     tt["args"][1].get("k") == "const" and tt["args"][1].get("int") == 0]
            incs = [st for b, _i, st in fn.stmts() if b in body and st["s"] == "assign" and st.get("rv") == "bin" and st["op"].startswith("Add") and
                    st["a"].get("k") in ("copy", "move") and st["a"]["pl"]["p"] == ["*"] and st["a"]["pl"]["l"] in slots and st["b"].get("k") == "const" and st["b"].get("int") == 1]
            stores = [st for b, _i, st in fn.stmts() if b in body and st["s"] == "assign" and st["dst"]["p"] == ["*"] and st["dst"]["l"] in slots]
            okc = len(slots) == 1 and len(incs) == 1 and len(stores) == 1
        else:
            v2 = mv[3][2] if len(mv[3]) > 2 else None
            okc = v2 is not None and v2[0] == "bin" and v2[1] == "Add" and (sym.is_c(v2[2]) and v2[2][1] == 1 or sym.is_c(v2[3]) and v2[3][1] == 1) and "::get" in repr(v2) and repr(key) in repr(v2)
        chk.ob("VN", FN, bool(okc), "the counting path stores (previous count or 0) + 1 under the row's name", lp["where"], key="increment")
        chk.notes["data-type counts"] = "table-driven: %d rows, one guarded counting path" % len(src[1])
        return found
    return None


def data_types(chk, prog, ls=()):
    """per-group data-type counts: every counting call is guarded by `is_some()` of one message block and passes that block's own key; seven distinct
    blocks, seven distinct keys; the counting closure stores get(key).unwrap_or(0) + 1 under the same key (CFG rule over the MIR, guard = immediate dominating test)"""
    from nx.ir import callee_of, op_local
    fn = prog.fn(FN)
    clos = [p for p in prog.closures_of.get(FN, []) if prog.fn(p) is not None]
    w = fn.where()
    found = {}
    counter = None
    def touches_map(p):
        return any("HashMap" in callee_of(tt) for _, tt in prog.fn(p).calls())
    clos = [p for p in clos if touches_map(p)]       # the counting closure(s); other local closures (predicates) are not counting calls
    for b, t in fn.calls():
        name = callee_of(t)
        if name not in clos or len(t["args"]) != 2:
            continue
        # constant key: args[1] is a tuple local built from a &str constant in the same block
        key = None
        tup = op_local(t["args"][1])
        defs = {s["dst"]["l"]: s for s in fn.blocks[b]["stmts"] if s["s"] == "assign" and not s["dst"]["p"]}
        cur = defs.get(tup)
        hops = 0
        while cur is not None and hops < 6:
            hops += 1
            if cur.get("rv") == "agg" and cur.get("ops"):
                nxt = cur["ops"][0]
            elif cur.get("rv") == "use":
                nxt = cur["a"]
            elif cur.get("rv") == "ref":
                nxt = {"k": "copy", "pl": {"l": cur["pl"]["l"], "p": []}}
            else:
                break
            if nxt.get("k") == "const" and "str" in nxt:
                key = nxt["str"]
                break
            cur = defs.get(nxt["pl"]["l"]) if nxt.get("k") in ("copy", "move") else None
        # guard: walk the dominator chain to the nearest two-way switch whose condition is `is_some(&(..).field)`
        field = None
        idom = fn._idom if getattr(fn, "_idom", None) else (fn.dominators() and fn._idom)
        x = b
        while x != 0 and field is None:
            x = idom[x]
            tt = fn.term(x)
            if tt["t"] == "switch":
                dl = op_local(tt["discr"])
                for px in fn.pred_map()[x] + [x]:
                    ct = fn.term(px)
                    if ct["t"] == "call" and ct["dest"]["l"] == dl and callee_of(ct).endswith("Option::<T>::is_some"):
                        al = op_local(ct["args"][0])
                        for s in fn.blocks[px]["stmts"]:
                            if s["s"] == "assign" and s["dst"]["l"] == al and s.get("rv") == "ref":
                                names_ = [e.get("name") for e in s["pl"]["p"] if isinstance(e, dict) and "f" in e]
                                field = names_[-1] if names_ else None
                        # the counting call must be on the `true` side
                        true_side = [bb2 for v_, bb2 in tt["arms"] if int(v_) == 1] or [tt["otherwise"]]
                        if field and not fn.dominates(true_side[0], b):
                            field = "!" + field
                break
        counter = name
        found[field] = key
    if not found:
        tab = table_form(chk, prog, fn, ls)
        if tab is not None:
            found, counter = tab, None
    okk = found == DATA_TYPES
    chk.ob("R-TABLE", FN, okk, "each of the seven moment blocks, when present, is counted once under its own name" if okk else
           "block -> counted key is %s, expected %s" % (found, DATA_TYPES), w, key="data-type-table")
    chk.floor("data-type counting sites", len(found), 7)
    if counter:
        ev = sym.Evaluator(prog)
        try:
            caps = tuple(P(u.get("name") or "cap%d" % i) for i, u in enumerate(prog.fn(counter).j.get("upvars", []))) or (P("data_types"),)
            ev.eval_fn(counter, [("closure", counter, caps), P("key")])
            gets = [e for e in ev.effects if e[0].endswith("HashMap::<K, V, S, A>::get")]
            ins = [e for e in ev.effects if e[0].endswith("HashMap::<K, V, S, A>::insert")]
            okc = len(gets) == 1 and len(ins) == 1 and gets[0][1][1] == P("key")
            ents = [e for e in ev.effects if e[0].endswith("HashMap::<K, V, S, A>::entry")]
            if not gets and not ins and len(ents) == 1:
                # entry API: *map.entry(key).or_insert(0) += 1 — the slot is created with 0 when missing and incremented in place
                cf = prog.fn(counter)
                slots = [tt["dest"]["l"] for _, tt in cf.calls() if "Entry" in callee_of(tt) and callee_of(tt).endswith("::or_insert") and
                         tt["args"][1].get("k") == "const" and tt["args"][1].get("int") == 0]
                incs = [st for _, _, st in cf.stmts() if st["s"] == "assign" and st.get("rv") == "bin" and st["op"].startswith("Add") and
                        st["a"].get("k") in ("copy", "move") and st["a"]["pl"]["p"] == ["*"] and st["a"]["pl"]["l"] in slots and
                        st["b"].get("k") == "const" and st["b"].get("int") == 1]
                stores = [st for _, _, st in cf.stmts() if st["s"] == "assign" and st["dst"]["p"] == ["*"] and st["dst"]["l"] in slots]
                okc = len(slots) == 1 and len(incs) == 1 and len(stores) == 1 and P("key") in sym.atoms(ents[0][1][1])
            elif okc:
                k2, v2 = ins[0][1][1], ins[0][1][2]
                is_add = (v2[0] == "bin" and v2[1] == "Add" and (sym.is_c(v2[2]) and v2[2][1] == 1 or sym.is_c(v2[3]) and v2[3][1] == 1)) or \
                    (v2[0] == "call" and v2[1].endswith("::add") and sym.is_c(v2[2][1]) and v2[2][1][1] == 1 and gets[0][0] in repr(v2[2][0]))
                okc = P("key") in sym.atoms(k2) and is_add
            chk.ob("VN", counter, bool(okc), "the counter stores (previous count or 0) + 1 under the key it was given", prog.fn(counter).where(), key="increment")
        except sym.Undecided as e:
            chk.blind("VN", counter, "counting closure undecided: %s" % e)
