"""C11 — Volume Coverage Pattern message: layout, count-driven decode, scaling and bit fields."""
from nx import sym, layout, loops, wbits
from nx.spec import *
from rules import common

LEVEL = "other"
V = "nexrad_decode::messages::volume_coverage_pattern::"
H = V + "header::Header"
E = V + "elevation_data_block::ElevationDataBlock"
FN = V + "decode_volume_coverage_pattern"
DES = "nexrad_decode::util::deserialize::<%s>"
VM = V + "message::Message"
DEFS = V + "definitions::"

# accessor -> (field, width, lo bit, hi bit)   (documented bit positions, inclusive)
HEADER_BITS = {
    "vcp_sequencing_number_of_elevations": ("vcp_sequencing", 0, 4), "vcp_sequencing_maximum_sails_cuts": ("vcp_sequencing", 5, 6),
    "vcp_sequencing_sequence_active": ("vcp_sequencing", 13, 13), "vcp_sequencing_truncated_vcp": ("vcp_sequencing", 14, 14),
    "vcp_supplemental_data_sails_vcp": ("vcp_supplemental_data", 0, 0), "vcp_supplemental_data_number_sails_cuts": ("vcp_supplemental_data", 1, 3),
    "vcp_supplemental_data_mrle_vcp": ("vcp_supplemental_data", 4, 4), "vcp_supplemental_data_number_mrle_cuts": ("vcp_supplemental_data", 5, 7),
    "vcp_supplemental_data_mpda_vcp": ("vcp_supplemental_data", 11, 11), "vcp_supplemental_data_base_tilt_vcp": ("vcp_supplemental_data", 12, 12),
    "vcp_supplemental_data_base_tilts": ("vcp_supplemental_data", 13, 15),
}
CUT_BITS = {
    "super_resolution_control_half_degree_azimuth": ("super_resolution_control", 0, 0),
    "super_resolution_control_quarter_km_reflectivity": ("super_resolution_control", 1, 1),
    "super_resolution_control_doppler_to_300km": ("super_resolution_control", 2, 2),
    "super_resolution_control_dual_polarization_to_300km": ("super_resolution_control", 3, 3),
    "supplemental_data_sails_cut": ("supplemental_data", 0, 0), "supplemental_data_sails_sequence_number": ("supplemental_data", 1, 3),
    "supplemental_data_mrle_cut": ("supplemental_data", 4, 4), "supplemental_data_mrle_sequence_number": ("supplemental_data", 5, 7),
    "supplemental_data_mpda_cut": ("supplemental_data", 9, 9), "supplemental_data_base_tilt_cut": ("supplemental_data", 10, 10),
}
ANGLES = {"elevation_angle": "elevation_angle", "sector_1_edge_angle": "sector_1_edge_angle", "sector_2_edge_angle": "sector_2_edge_angle",
          "sector_3_edge_angle": "sector_3_edge_angle", "ebc_angle": "ebc_angle"}
THRESHOLDS = ["reflectivity_threshold", "velocity_threshold", "spectrum_width_threshold", "differential_reflectivity_threshold",
              "differential_phase_threshold", "correlation_coefficient_threshold"]
UNITS = {"angle": "uom::si::angle::degree", "rate": "uom::si::angular_velocity::degree_per_second", "velocity": "uom::si::velocity::meter_per_second"}


def bit_spec(field_atom, lo, hi, out_width):
    v = [(field_atom, i) for i in range(lo, hi + 1)]
    return v + [0] * (out_width - len(v))


def check_bits(chk, ev, owner, table, floor_name):
    n = 0
    for acc, (field, lo, hi) in sorted(table.items()):
        path = owner + "::" + acc
        got, fn = eval_or_blind(chk, ev, "VN", path)
        if got is None:
            continue
        n += 1
        fty = fn.j["ret"]["s"]
        width = 1 if fty == "bool" else sym.INT_TYS.get(fty, (0, 8))[1]
        fw = 16 if field != "super_resolution_control" else 8
        # give the field its declared width
        b = sym.bits_of(got, fw)
        want = bit_spec(F(field), lo, hi, width)
        okk = b == want
        chk.ob("VN", path, okk, "reads exactly bits %d..=%d of `%s`" % (lo, hi, field) if okk else
               "bit provenance differs: found %s, documented bits %d..=%d of `%s`" % (bits_show(b), lo, hi, field), fn.where(), key="bits")
    chk.floor(floor_name, n, len(table))


def bits_show(b):
    if b is None:
        return "<not a mask/shift of one field>"
    return "[" + ",".join(str(x) if x in (0, 1) else ("!" if x[0] == "not" else "") + "%s[%d]" % ((x[1][0] if x[0] == "not" else x[0])[-1], (x[1][1] if x[0] == "not" else x[1])) for x in b) + "]"


def strip_unit(chk, t, unit, anchor, where):
    if t[0] == "uom":
        chk.ob("R-WIRE", anchor, unit in t[1], "unit of the quantity is %s" % (t[1][-1] if t[1] else "?"), where, key="unit")
        return t[2]
    chk.ob("R-WIRE", anchor, False, "result is not built with Quantity::new::<%s>" % unit, where, key="unit")
    return t


def frame_bound(chk, prog):
    from rules import c03
    ev = sym.Evaluator(prog, opaque_local=[c03.T31, c03.STATUS, c03.VCP])
    reader, mt = P("reader"), P("message_type")
    got, fn = eval_or_blind(chk, ev, "VN", c03.DC, [reader, mt])
    if got is None:
        return
    buf = ("repeat", C(0, "u8"), c03.FRAME - 28)
    filled = ("mutated", "std::io::Read::read_exact", 1, (reader, buf))
    calls = set()

    def find(t):
        if isinstance(t, tuple) and t:
            if t[0] == "call" and t[1] == c03.VCP:
                calls.add(t)
            for x in (t if isinstance(t[0], tuple) else t[1:]):
                if isinstance(x, tuple):
                    find(x)
    find(got)
    okk = bool(calls) and all(c[2] == (filled,) for c in calls)
    chk.ob("R-ORDER", c03.DC, okk, "the coverage-pattern decoder reads from the %d-byte frame buffer, so the frame bounds the cuts that can be read" % (c03.FRAME - 28) if okk else
           "the coverage-pattern decoder is not confined to the frame body: it is given %s" % (", ".join(sorted(show(c[2][0])[:80] for c in calls)) or "nothing (never called)"),
           fn.where(), key="vcp-reads-frame-buffer")


MAX_CUTS = 51          # (1202 halfwords of frame body - 11 of header) // 23 per cut: the property's own upper bound


def collected_form(chk, prog, fn):
    """the decoder without an explicit loop: header, then `number_of_elevation_cuts` blocks read in order by a collected
    iterator chain over 0..n, any failure returned as the error"""
    reader = P(fn.local_name(1) or "arg1")
    hdr = ("call", DES % H, (reader,))
    blk = ("call", DES % E, (reader,))
    ev = sym.Evaluator(prog, opaque_local=["nexrad_decode::util::deserialize"])
    got, _ = eval_or_blind(chk, ev, "VN", FN)
    if got is None:
        return
    chk.trust("Iterator::collect::<Result<Vec<_>, E>>() yields the elements' Ok payloads in order, or the first Err (core docs)")
    n = fld(("vfld", hdr, "Ok", "0"), "number_of_elevation_cuts")
    sq = ("seq", adt("core::ops::range::Range", "Range", (("start", C(0, "u16")), ("end", n))), (), blk)
    want = sym.res_match(hdr, lambda h: sym.res_match(sq, lambda v: ok(adt(VM, "Message", (("header", h), ("elevations", v)))), lambda e: err(e)),
                         lambda e: err(e))      # `?` between equal error types is the identity (sym._m_res_from_residual)
    chk.ob("VN", FN, True, "0 loop(s) in the decoder: the cuts are read by an iterator chain", fn.where(), key="one-loop")
    starts = [x for x in sym._leaves(got, []) if x[0] == "adt" and x[2] == "Ok"]
    seqs = set()

    def find(t):
        if isinstance(t, tuple) and t:
            if t[0] == "seq":
                seqs.add(t)
                return
            for x in (t if isinstance(t[0], tuple) else t[1:]):
                if isinstance(x, tuple):
                    find(x)
    find(got)
    one = len(seqs) == 1
    sq_got = next(iter(seqs)) if one else None
    chk.ob("VN", FN + "#cuts", one and sq_got[1][0] == "adt" and loops.const_value(fld(sq_got[1], "start")) == 0, "the chain starts at 0", fn.where(), key="start")
    if one:
        expect(chk, "VN", FN + "#cuts", loops.strip_widen(fld(sq_got[1], "end")), n, fn.where(), "cut loop bound")
        chk.ob("R-LIN", FN + "#cuts", sq_got[2] == () and sq_got[3] == blk, "each element is the block decoded for it, nothing is filtered (element: %s)" % show(sq_got[3])[:120], fn.where(), key="push")
    expect(chk, "R-ERR", FN, got, want, fn.where(), "header error, first cut error, or Message::new(header, cuts in order)", key="pre-loop-returns")


def decoder(chk, prog):
    """the VCP body decoder: loop bound, one push per cut, failures returned, no count 0..=51 turned away, frame-bounded"""
    # ---- decode loop
    fn = prog.fn(FN)
    if fn is None:
        chk.blind("VN", FN, "decoder not found")
    else:
        try:
            ls = loops.summarize(prog, fn)
        except sym.Undecided as e:
            ls = None
            chk.blind("VN", FN, "decode loop could not be summarised: %s" % e, fn.where())
        if ls is not None and len(ls) == 0:
            # no loop in the decoder itself: the cuts may be read by an iterator chain `(0..n).map(|_| deserialize(reader)).collect::<Result<Vec<_>>>()?`
            ls = None
            collected_form(chk, prog, fn)
        if ls is not None:
            chk.ob("VN", FN, len(ls) == 1, "%d loop(s) in the decoder (one expected)" % len(ls), fn.where(), key="one-loop")
            if len(ls) == 1:
                lp = ls[0]
                reader = P(fn.local_name(1) or "arg1")
                hdr = ("call", DES % H, (reader,))
                blk = ("call", DES % E, (reader,))
                from rules.c13 import shape, find_pushes
                import rules.c13 as c13
                c13.FN = FN
                chk.ob("VN", FN + "#cuts", loops.const_value(lp["start"]) == 0, "loop starts at %s (must start at 0)" % show(lp["start"]), lp["where"], key="start")
                expect(chk, "VN", FN + "#cuts", loops.strip_widen(lp["N"]), fld(("vfld", hdr, "Ok", "0"), "number_of_elevation_cuts"), lp["where"], "cut loop bound")
                shape(chk, fn, "cuts", lp)
                for conds, kind, val in lp["paths"]:
                    if kind == "next":
                        found = []
                        for l, v in val.items():
                            if v[0] == "mutated" and v[1].endswith("::push"):
                                found.append(v[3])
                        okk = len(found) == 1 and found[0][1] == ("vfld", blk, "Ok", "0") and found[0][0][0] == "p"
                        chk.ob("R-LIN", FN + "#cuts", okk, "exactly one push per iteration, of the block decoded in this iteration (found %d)" % len(found), lp["where"], key="push")
                c13.FN = c13.M + "decode_clutter_filter_map"
                # the vector pushed into is the one handed to Message::new together with the header
                pre = [(conds, leaf) for conds, leaf in loops.paths(loops.entry_env(prog, fn, lp["head"])[1]) if isinstance(leaf, tuple) and leaf[0] != "@join"]
                chk.ob("R-ERR", FN, all(x[0] == "adt" and x[2] == "Err" for _c, x in pre), "before the loop the only early return is the header's decode error", fn.where(), key="pre-loop-returns")
                # every count 0..=51 is read: an early return is the header's own failure, or a guard that only turns away counts
                # no frame can hold (52 and more)
                cnt = fld(("vfld", hdr, "Ok", "0"), "number_of_elevation_cuts")
                bad = []
                for conds, leaf in pre:
                    if any(len(c) == 3 and c[0] == ("discr", hdr) and c[2] == ((1, 1),) for c in conds):
                        continue
                    # the path's conditions with the count replaced by each legal value: it must be closed to all of them
                    def holds(c, n):
                        t = sym.rebuild(c[0], {cnt: C(n, "u16")})
                        if len(c) == 2:
                            return (t == TRUE) == c[1] if t in (TRUE, FALSE) else None
                        if sym.is_c(t) and isinstance(t[1], int):
                            return any(lo <= t[1] <= hi for lo, hi in c[2])
                        return None
                    rest = [c for c in conds if not (len(c) == 3 and c[0] == ("discr", hdr))]
                    open_for = [n for n in range(MAX_CUTS + 1) if all(holds(c, n) is not False for c in rest)]
                    if rest and not open_for:
                        continue
                    bad.append("; ".join("%s in %s" % (show(c[0])[:60], c[2]) if len(c) == 3 else "%s is %s" % (show(c[0])[:60], c[1]) for c in conds))
                chk.ob("R-ERR", FN, not bad, "no message with 0..=%d cuts is turned away before its cuts are read" % MAX_CUTS if not bad else
                       "the decoder returns early, without reading the cuts, under: %s" % " | ".join(bad)[:300], fn.where(), key="no-early-reject")

    # ---- the decoder is run on the frame, not on the stream: a cut count that does not fit the 2404-byte frame body must
    #      run out of bytes (an error), it must not be satisfied from the messages that follow
    frame_bound(chk, prog)



def cut_codes(chk, ev):
    """The two coded fields of a cut that the chunk-timing estimate keys on (carried by C19): channel configuration and waveform type."""
    def coded(path, field, ty, rows, default, what):
        got, f2 = eval_or_blind(chk, ev, "VN", path)
        if got is not None:
            expect(chk, "R-TABLE", path, got, table(F(field), ty, rows, default), f2.where(), what)
    CC = DEFS + "ChannelConfiguration"
    coded(E + "::channel_configuration", "channel_configuration", "u8",
          [(0, unit_variant(CC, "ConstantPhase")), (1, unit_variant(CC, "RandomPhase")), (2, unit_variant(CC, "SZ2Phase"))], unit_variant(CC, "UnknownPhase"), "channel configuration codes")
    WT = DEFS + "WaveformType"
    coded(E + "::waveform_type", "waveform_type", "u8", [(i + 1, unit_variant(WT, n2)) for i, n2 in enumerate(["CS", "CDW", "CDWO", "B", "SPP"])],
          unit_variant(WT, "Unknown"), "waveform type codes")


def run(chk, tier):
    prog, info = common.program("all")
    common.note_extraction(chk, info, prog)
    common.vacuity(chk, ['VN-bits', 'R-TABLE'])
    chk.explanation = ("R-LAYOUT on the 11-halfword header and the 23-halfword cut block; the decode loop is summarised by value numbering (bound "
                       "0..zext(number_of_elevation_cuts), one push of this iteration's decoded block per iteration, every failure an error return); each "
                       "flag/sub-field accessor is reduced to a per-bit provenance vector and compared with the documented bit positions; each scaled "
                       "accessor is reduced to a weighted-bit sum (exact dyadic weights) and compared with the ICD encoding; coded fields by table.")
    chk.trust("serde_derive/bincode encoding; uom Quantity::new is a tagged value; f64 accumulation of the dyadic weights is exact (checked: < 53 significant bits)")
    layout.check_struct(chk, prog, H)
    layout.check_struct(chk, prog, E)
    ev = sym.Evaluator(prog)

    decoder(chk, prog)

    # ---- bit fields
    check_bits(chk, ev, H, HEADER_BITS, "header bit-field accessors")
    check_bits(chk, ev, E, CUT_BITS, "cut bit-field accessors")

    # ---- scaled accessors
    ang = {i: 180.0 * 2.0 ** (i - 15) for i in range(3, 16)}
    rate = {i: 22.5 * 2.0 ** (i - 14) for i in range(3, 15)}
    thr = {i: 0.125 * 2.0 ** i for i in range(15)}
    thr[15] = -0.125 * 2.0 ** 15
    n = 0
    for acc, field in ANGLES.items():
        for suffix, unit in (("", UNITS["angle"]), ("_degrees", None)):
            path = E + "::" + acc + suffix
            got, f2 = eval_or_blind(chk, ev, "VN", path)
            if got is None:
                continue
            n += 1
            if unit:
                got = strip_unit(chk, got, unit, path, f2.where())
            c = wbits.canon(got)
            want = wbits.spec(F(field), ang)
            chk.ob("VN", path, c == want, "angle = sum_{i=3..15} 180*2^(i-15)*%s[i]" % field if c == want else
                   "weighted-bit form differs: found %s ; ICD: %s" % (wbits.show(c), wbits.show(want)), f2.where(), key="scale")
    for suffix, unit in (("", UNITS["rate"]), ("_degrees_per_second", None)):
        path = E + "::azimuth_rate" + suffix
        got, f2 = eval_or_blind(chk, ev, "VN", path)
        if got is None:
            continue
        n += 1
        if unit:
            got = strip_unit(chk, got, unit, path, f2.where())
        c = wbits.canon(got)
        want = wbits.spec(F("azimuth_rate"), rate, negbit=15)
        chk.ob("VN", path, c == want, "rate = (-1)^raw[15] * sum_{i=3..14} 22.5*2^(i-14)*raw[i]" if c == want else
               "weighted-bit form differs: found %s ; ICD: %s" % (wbits.show(c), wbits.show(want)), f2.where(), key="scale")
    for acc in THRESHOLDS:
        path = E + "::" + acc
        got, f2 = eval_or_blind(chk, ev, "VN", path)
        if got is None:
            continue
        n += 1
        c = wbits.canon(got)
        want = wbits.spec(F(acc), thr)
        chk.ob("VN", path, c == want, "threshold = sext(%s) / 8" % acc if c == want else
               "weighted-bit form differs: found %s ; ICD: %s" % (wbits.show(c), wbits.show(want)), f2.where(), key="scale")
    chk.floor("scaled accessors", n, 18)

    # ---- coded fields
    def coded(path, field, ty, rows, default, what):
        got, f2 = eval_or_blind(chk, ev, "VN", path)
        if got is not None:
            expect(chk, "R-TABLE", path, got, table(F(field), ty, rows, default), f2.where(), what)
    coded(H + "::pattern_type", "pattern_type", "u16", [(2, unit_variant(DEFS + "PatternType", "Constant"))], unit_variant(DEFS + "PatternType", "Unknown"), "pattern type codes")
    coded(H + "::pulse_width", "pulse_width", "u8", [(2, unit_variant(DEFS + "PulseWidth", "Short")), (4, unit_variant(DEFS + "PulseWidth", "Long"))],
          unit_variant(DEFS + "PulseWidth", "Unknown"), "pulse width codes")
    coded(H + "::doppler_velocity_resolution_meters_per_second", "doppler_velocity_resolution", "u8",
          [(2, some(C(0.5, "f64"))), (4, some(C(1.0, "f64")))], NONE, "velocity resolution codes")
    got, f2 = eval_or_blind(chk, ev, "VN", H + "::doppler_velocity_resolution")
    if got is not None:
        def leaf(x):
            if x[0] == "adt" and x[2] == "Some" and x[3][0][1][0] == "uom" and UNITS["velocity"] in x[3][0][1][1]:
                return some(x[3][0][1][2])
            return x
        expect(chk, "R-SIB", H + "::doppler_velocity_resolution", sym.map_leaves(got, leaf),
               table(F("doppler_velocity_resolution"), "u8", [(2, some(C(0.5, "f64"))), (4, some(C(1.0, "f64")))], NONE), f2.where(), "unit-typed velocity resolution codes (m/s)")
    cut_codes(chk, ev)
