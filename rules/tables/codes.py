"""Frozen code tables (R-TABLE oracles). Each table: code -> variant name of the result enum."""

# ICD 2620002W Table II message type codes, as confirmed on the pinned tree (29 codes)
MESSAGE_TYPE = {
    1: "RDADigitalRadarData", 2: "RDAStatusData", 3: "RDAPerformanceMaintenanceData", 4: "RDAConsoleMessage",
    5: "RDAVolumeCoveragePattern", 6: "RDAControlCommands", 7: "RPGVolumeCoveragePattern", 8: "RPGClutterCensorZones",
    9: "RPGRequestForData", 10: "RPGConsoleMessage", 11: "RDALoopBackTest", 12: "RPGLoopBackTest",
    13: "RDAClutterFilterBypassMap", 14: "Spare1", 15: "RDAClutterFilterMap", 16: "ReservedFAARMSOnly1",
    17: "ReservedFAARMSOnly2", 18: "RDAAdaptationData", 20: "Reserved1", 21: "Reserved2", 22: "Reserved3",
    23: "Reserved4", 24: "ReservedFAARMSOnly3", 25: "ReservedFAARMSOnly4", 26: "ReservedFAARMSOnly5",
    29: "Reserved5", 31: "RDADigitalRadarDataGenericFormat", 32: "RDAPRFData", 33: "RDALogData",
}

REDUNDANT_CHANNEL = {0: "LegacySingleChannel", 1: "LegacyRedundantChannel1", 2: "LegacyRedundantChannel2",
                     8: "ORDASingleChannel", 9: "ORDARedundantChannel1", 10: "ORDARedundantChannel2"}
