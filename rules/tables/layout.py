"""R-LAYOUT oracle: wire layouts transcribed from ICD 2620002W (tables II, IV, XI, XVII-A/B/E/F/H)
and ICD 2620010H §7.3.3 as restated by the field documentation, confirmed on the pinned tree.
Rows are `offset:field:type`; all integers/floats big-endian; `[u8;n]` raw bytes. The byte
totals (28, 32, 4, 52, 12, 28, 28, 22, 46, 120, 6, 2, 4, 24) are the independent anchors stated
by the properties / the ICD halfword counts."""

D = "nexrad_decode::messages::"
LAYOUTS = {
    D + "message_header::MessageHeader": (28, """0:rpg_unknown:[u8;12] 12:segment_size:u16 14:redundant_channel:u8 15:message_type:u8
        16:sequence_number:u16 18:date:u16 20:time:u32 24:segment_count:u16 26:segment_number:u16""", True),
    D + "digital_radar_data::header::Header": (32, """0:radar_identifier:[u8;4] 4:time:u32 8:date:u16 10:azimuth_number:u16 12:azimuth_angle:f32
        16:compression_indicator:u8 17:spare:u8 18:radial_length:u16 20:azimuth_resolution_spacing:u8
        21:radial_status:u8 22:elevation_number:u8 23:cut_sector_number:u8 24:elevation_angle:f32
        28:radial_spot_blanking_status:u8 29:azimuth_indexing_mode:u8 30:data_block_count:u16""", False),
    D + "digital_radar_data::data_block_id::DataBlockId": (4, "0:data_block_type:u8 1:data_name:[u8;3]", False),
    D + "digital_radar_data::volume_data_block::VolumeDataBlock": (52, """0:data_block_id:DataBlockId 4:lrtup:u16
        6:major_version_number:u8 7:minor_version_number:u8 8:latitude:f32 12:longitude:f32
        16:site_height:i16 18:feedhorn_height:u16 20:calibration_constant:f32
        24:horizontal_shv_tx_power:f32 28:vertical_shv_tx_power:f32
        32:system_differential_reflectivity:f32 36:initial_system_differential_phase:f32
        40:volume_coverage_pattern_number:u16 42:processing_status:u16
        44:zdr_bias_estimate_weighted_mean:u16 46:spare:[u8;6]""", False),
    D + "digital_radar_data::elevation_data_block::ElevationDataBlock": (12, """0:data_block_id:DataBlockId 4:lrtup:u16
        6:atmos:i16 8:calibration_constant:f32""", False),
    D + "digital_radar_data::radial_data_block::RadialDataBlock": (28, """0:data_block_id:DataBlockId 4:lrtup:u16
        6:unambiguous_range:u16 8:horizontal_channel_noise_level:f32
        12:vertical_channel_noise_level:f32 16:nyquist_velocity:u16 18:radial_flags:u16
        20:horizontal_channel_calibration_constant:f32 24:vertical_channel_calibration_constant:f32""", False),
    D + "digital_radar_data::generic_data_block::GenericDataBlockHeader": (28, """0:data_block_id:DataBlockId 4:reserved:u32
        8:number_of_data_moment_gates:u16 10:data_moment_range:u16
        12:data_moment_range_sample_interval:u16 14:tover:u16 16:snr_threshold:u16
        18:control_flags:u8 19:data_word_size:u8 20:scale:f32 24:offset:f32""", False),
    D + "volume_coverage_pattern::header::Header": (22, """0:message_size:u16 2:pattern_type:u16 4:pattern_number:u16 6:number_of_elevation_cuts:u16
        8:version:u8 9:clutter_map_group_number:u8 10:doppler_velocity_resolution:u8
        11:pulse_width:u8 12:reserved_1:u32 16:vcp_sequencing:u16 18:vcp_supplemental_data:u16
        20:reserved_2:u16""", False),
    D + "volume_coverage_pattern::elevation_data_block::ElevationDataBlock": (46, """0:elevation_angle:u16 2:channel_configuration:u8 3:waveform_type:u8
        4:super_resolution_control:u8 5:surveillance_prf_number:u8
        6:surveillance_prf_pulse_count_radial:u16 8:azimuth_rate:u16 10:reflectivity_threshold:i16
        12:velocity_threshold:i16 14:spectrum_width_threshold:i16
        16:differential_reflectivity_threshold:i16 18:differential_phase_threshold:i16
        20:correlation_coefficient_threshold:i16 22:sector_1_edge_angle:u16
        24:sector_1_doppler_prf_number:u16 26:sector_1_doppler_prf_pulse_count_radial:u16
        28:supplemental_data:u16 30:sector_2_edge_angle:u16 32:sector_2_doppler_prf_number:u16
        34:sector_2_doppler_prf_pulse_count_radial:u16 36:ebc_angle:u16 38:sector_3_edge_angle:u16
        40:sector_3_doppler_prf_number:u16 42:sector_3_doppler_prf_pulse_count_radial:u16
        44:reserved:u16""", False),
    D + "rda_status_data::message::Message": (120, """0:rda_status:u16 2:operability_status:u16 4:control_status:u16
        6:auxiliary_power_generator_state:u16 8:average_transmitter_power:u16
        10:horizontal_reflectivity_calibration_correction:u16 12:data_transmission_enabled:u16
        14:volume_coverage_pattern:i16 16:rda_control_authorization:u16 18:rda_build_number:u16
        20:operational_mode:u16 22:super_resolution_status:u16
        24:clutter_mitigation_decision_status:u16 26:rda_scan_and_data_flags:u16
        28:rda_alarm_summary:u16 30:command_acknowledgement:u16 32:channel_control_status:u16
        34:spot_blanking_status:u16 36:bypass_map_generation_date:u16
        38:bypass_map_generation_time:u16 40:clutter_filter_map_generation_date:u16
        42:clutter_filter_map_generation_time:u16
        44:vertical_reflectivity_calibration_correction:u16 46:transition_power_source_status:u16
        48:rms_control_status:u16 50:performance_check_status:u16 52:alarm_codes:[u16;14]
        80:signal_processor_options:u16 82:spares:[u16;18] 118:status_version:u16""", False),
    D + "clutter_filter_map::header::Header": (6, "0:map_generation_date:u16 2:map_generation_time:u16 4:elevation_segment_count:u16", False),
    D + "clutter_filter_map::azimuth_segment::AzimuthSegmentHeader": (2, "0:range_zone_count:u16", False),
    D + "clutter_filter_map::range_zone::RangeZone": (4, "0:op_code:u16 2:end_range:u16", False),
    "nexrad_data::volume::header::Header": (24, """0:tape_filename:[u8;9]
        9:extension_number:[u8;3] 12:date:u32 16:time:u32 20:icao_of_radar:[u8;4]""", True),
}
# third element: size_of::<T>() is used as a wire length in the code, so layout size must equal wire size

NESTED = {"DataBlockId": D + "digital_radar_data::data_block_id::DataBlockId"}


def rows(spec):
    out = []
    for tok in spec.split():
        off, name, ty = tok.split(":")
        out.append((int(off), name, ty))
    return out
