"""Library classification — trusted base of R-PANIC / R-TERM (DESIGN Appendix C).
Keys are resolved definition paths as printed by the driver (generic args stripped by rustc)."""
import re

# always a panic when reached
PANIC = [
    r"^core::panicking::", r"^std::rt::begin_panic", r"^core::option::unwrap_failed", r"^core::option::expect_failed",
    r"^core::result::unwrap_failed", r"^core::slice::index::slice_.*_fail", r"^core::str::slice_error_fail",
    r"^std::panicking::", r"^core::panicking::panic_fmt",
]
# panics on some argument values; an obligation unless a precondition rule discharges it
UNWRAP = [
    r"^core::option::Option::<T>::(unwrap|expect)$", r"^core::result::Result::<T, E>::(unwrap|expect|unwrap_err|expect_err)$",
]
# partial functions with a precondition the interval analysis may discharge; value = rule name in nx/panics.py
PARTIAL = {
    r"^core::slice::index::<impl core::ops::index::Index(Mut)?<I> for \[T\]>::index(_mut)?$": "slice_index",
    r"^<alloc::vec::Vec<T, A> as core::ops::index::Index(Mut)?<I>>::index(_mut)?$": "slice_index",
    r"^core::array::<impl core::ops::index::Index(Mut)?<I> for \[T; N\]>::index(_mut)?$": "slice_index",
    r"^core::str::traits::<impl core::ops::index::Index<I> for str>::index$": "str_index",
    r"^<alloc::string::String as core::ops::index::Index<I>>::index$": "str_index",
    r"^core::slice::<impl \[T\]>::copy_from_slice$": "copy_from_slice",
    r"^core::slice::<impl \[T\]>::clone_from_slice$": "copy_from_slice",
    r"^core::slice::<impl \[T\]>::split_at(_mut)?$": "split_at",
    r"^core::slice::<impl \[T\]>::(chunks|chunks_exact|windows|chunks_mut|rchunks)$": "nonzero_arg1",
    r"^core::num::<impl i(8|16|32|64|128|size)>::abs$": "abs",
    r"^core::num::<impl [iu](8|16|32|64|128|size)>::pow$": "pow",
    r"^chrono::time_delta::TimeDelta::(days|hours|minutes|seconds)$": "timedelta_ctor",
    r"^chrono::time_delta::TimeDelta::milliseconds$": "timedelta_ms",
    r"^<chrono::naive::date::NaiveDate as core::ops::arith::(Add|Sub)<chrono::time_delta::TimeDelta>>::(add|sub)$": "date_plus_delta",
    r"^<chrono::datetime::DateTime<Tz> as core::ops::arith::(Add|Sub)<chrono::time_delta::TimeDelta>>::(add|sub)$": "datetime_plus_delta",
    r"^<chrono::naive::datetime::NaiveDateTime as core::ops::arith::(Add|Sub)<chrono::time_delta::TimeDelta>>::(add|sub)$": "datetime_plus_delta",
    r"^<(tokio::time::instant::Instant|std::time::Instant) as core::ops::arith::Add<core::time::Duration>>::add$": "instant_plus",
    r"^alloc::vec::Vec::<T, A>::(remove|insert|swap_remove|split_off|drain)$": "vec_index",
    r"^alloc::collections::vec_deque::VecDeque::<T, A>::(remove|insert|swap|range|drain)$": "vec_index",
    r"^<alloc::collections::vec_deque::VecDeque<T, A> as core::ops::index::Index<usize>>::index$": "vec_index",
    r"^<std::collections::hash::map::HashMap<K, V, S> as core::ops::index::Index<&Q>>::index$": "vec_index",
    r"^core::ops::arith::(Div|Rem)::(div|rem)$": "vec_index",
    r"^core::iter::traits::iterator::Iterator::(step_by)$": "nonzero_arg1",
    r"^core::time::Duration::(from_secs_f32|from_secs_f64|mul_f32|mul_f64)$": "vec_index",
    r"^<core::time::Duration as core::ops::arith::(Add|Sub|Mul)(<.*>)?>::(add|sub|mul)$": "vec_index",
    r"^core::cell::RefCell::<T>::(borrow|borrow_mut)$": "vec_index",
    # panics for some arguments; never discharged (reported when reachable): listed so that they are not 'unclassified'
    r"^core::num::<impl [iu](8|16|32|64|128|size)>::(clamp|rem_euclid|div_euclid|next_power_of_two|ilog2|ilog10|ilog|isqrt|div_ceil|next_multiple_of|strict_.*)$": "vec_index",
    r"^core::cmp::Ord::clamp$": "vec_index", r"^core::f(32|64)::<impl f(32|64)>::clamp$": "vec_index",
    r"^core::slice::<impl \[T\]>::(split_at_mut|swap|rotate_left|rotate_right|copy_within|chunks_exact_mut|rchunks_exact|array_windows|as_chunks_unchecked|select_nth_unstable_by|select_nth_unstable_by_key|split_off|first_chunk_unchecked)$": "vec_index",
    r"^alloc::vec::Vec::<T, A>::(extend_from_within|splice|truncate_front|split_at_spare_mut)$": "vec_index",
    r"^alloc::string::String::(insert|insert_str|remove|drain|replace_range|split_off|truncate)$": "vec_index",
    r"^core::str::<impl str>::(split_at|split_at_mut)$": "vec_index",
    r"^chrono::naive::date::NaiveDate::(from_ymd|and_hms|succ|pred|from_num_days_from_ce|from_yo|and_hms_milli)$": "vec_index",
    r"^chrono::naive::time::NaiveTime::(from_hms|from_num_seconds_from_midnight|from_hms_milli)$": "vec_index",
    r"^chrono::time_delta::TimeDelta::(weeks|nanoseconds_unused)$": "timedelta_ctor",
    r"^<chrono::naive::date::NaiveDate as core::ops::arith::(Add|Sub)<chrono::naive::Days>>::(add|sub)$": "vec_index",
    r"^<chrono::(datetime::DateTime<Tz>|naive::datetime::NaiveDateTime) as core::ops::arith::(Add|Sub)<chrono::(naive::Days|month::Months)>>::(add|sub)$": "vec_index",
}
# total for every argument (may return Err/None; allocation failure aborts, it does not unwind)
TOTAL = [
    r"^core::option::Option::<.*>::(map|and_then|ok_or|ok_or_else|is_some|is_none|is_some_and|as_ref|as_mut|take|unwrap_or|unwrap_or_else|unwrap_or_default|cloned|copied|or|or_else|filter|map_or|map_or_else|iter|replace|get_or_insert_with|zip|xor|and|ok|is_none_or)$",
    r"^core::result::Result::<T, E>::(map|map_err|ok|err|is_ok|is_err|and_then|or_else|unwrap_or|unwrap_or_else|unwrap_or_default|as_ref|map_or|map_or_else|iter)$",
    r"^<core::(option::Option|result::Result)<.*> as core::ops::try_trait::(Try|FromResidual<.*>)>::(branch|from_residual|from_output)$",
    r"^core::ops::try_trait::(Try|FromResidual)::(branch|from_residual|from_output)$",
    r"^core::iter::traits::iterator::Iterator::(map|filter|filter_map|enumerate|copied|cloned|skip|take|last|nth|any|all|collect|rev|zip|chain|count|next|find|position|fold|for_each|peekable|flatten|flat_map|take_while|skip_while|min|max|min_by_key|max_by_key|find_map|sum|by_ref|inspect|last)$",
    r"^<.* as core::iter::traits::iterator::Iterator>::(next|last|nth|size_hint|count)$",
    r"^core::iter::range::<impl core::iter::traits::iterator::Iterator for core::ops::range::Range<A>>::next$",
    r"^core::iter::traits::double_ended::DoubleEndedIterator::(rev|next_back)$",
    r"^<.* as core::iter::traits::collect::IntoIterator>::into_iter$", r"^core::iter::traits::collect::IntoIterator::into_iter$",
    r"^<alloc::vec::Vec<T, A> as core::iter::traits::collect::Extend<.*>>::extend$", r"^core::iter::traits::collect::Extend::extend$",
    r"^alloc::vec::Vec::<.*>::(new|push|with_capacity|len|is_empty|first|last|as_slice|as_mut_slice|iter|clear|pop|truncate|extend_from_slice|reserve|capacity|append|retain|dedup|into_boxed_slice|shrink_to_fit|as_ptr)$",
    r"^alloc::vec::from_elem$", r"^alloc::slice::<impl \[T\]>::(to_vec|sort_by_key|sort|sort_by|into_vec|concat|join)$",
    r"^core::slice::<impl \[T\]>::(len|get|get_mut|iter|iter_mut|first|last|is_empty|first_chunk|last_chunk|split_at_checked|split_first|split_last|starts_with|ends_with|contains|sort_unstable|sort_unstable_by_key|reverse|fill|to_owned|as_ptr|binary_search|binary_search_by_key|split_first_chunk)$",
    r"^core::str::<impl str>::(get|len|split|chars|parse|as_bytes|is_empty|trim|starts_with|ends_with|contains|find|to_owned|bytes|split_once|rsplit|lines|char_indices|is_char_boundary|strip_prefix|strip_suffix|trim_end|trim_start|rsplit_once|splitn|to_uppercase|to_lowercase|eq_ignore_ascii_case)$",
    r"^alloc::str::<impl str>::(to_string|to_owned|to_uppercase|to_lowercase|replace|repeat)$",
    r"^alloc::string::String::(new|push_str|push|from_utf8|from_utf8_lossy|as_str|as_bytes|len|is_empty|with_capacity|clear|into_bytes)$",
    r"^alloc::string::ToString::to_string$", r"^<.* as alloc::string::ToString>::to_string$",
    r"^<.* as core::ops::deref::Deref(Mut)?>::deref(_mut)?$", r"^core::ops::deref::Deref(Mut)?::deref(_mut)?$",
    r"^<.* as core::convert::AsRef<.*>>::as_ref$", r"^core::convert::AsRef::as_ref$", r"^core::array::<impl core::convert::AsRef<\[T\]> for \[T; N\]>::as_ref$",
    r"^<.* as core::convert::(From|Into|TryFrom|TryInto)<.*>>::(from|into|try_from|try_into)$", r"^core::convert::(From|Into|TryInto|TryFrom)::(from|into|try_into|try_from)$",
    r"^<.* as core::clone::Clone>::clone$", r"^core::clone::Clone::clone$", r"^<.* as core::default::Default>::default$", r"^core::default::Default::default$",
    r"^<.* as core::cmp::(PartialEq|PartialOrd|Ord|Eq)(<.*>)?>::(eq|ne|lt|le|gt|ge|cmp|partial_cmp|min|max)$",
    r"^core::cmp::(PartialEq|PartialOrd|Ord)::(eq|ne|lt|le|gt|ge|cmp|partial_cmp|min|max)$", r"^core::cmp::impls::<impl .*>::(eq|ne|lt|le|gt|ge|cmp|partial_cmp)$",
    r"^core::str::traits::<impl core::cmp::PartialEq for str>::(eq|ne)$", r"^core::(slice::cmp|array::equality)::<impl .*>::(eq|ne)$", r"^core::cmp::(min|max)$",
    r"^core::num::<impl [iu](8|16|32|64|128|size)>::(from_be_bytes|from_le_bytes|to_be_bytes|unsigned_abs|saturating_sub|saturating_add|saturating_mul|checked_add|checked_sub|checked_mul|checked_div|wrapping_add|wrapping_sub|wrapping_mul|min|max|count_ones|leading_zeros|trailing_zeros|is_power_of_two|abs_diff|rotate_left|rotate_right|swap_bytes|to_string|overflowing_add|overflowing_sub)$",
    r"^std::f(32|64)::<impl f(32|64)>::(powf|powi|sqrt|abs|floor|ceil|round|mul_add|ln|log10|exp|sin|cos|tan|atan2|to_degrees|to_radians|min|max|is_nan|is_finite)$",
    r"^core::f(32|64)::<impl f(32|64)>::(abs|to_degrees|to_radians|min|max|is_nan|is_finite|to_bits|from_bits|clamp|signum)$",
    r"^core::mem::(size_of|discriminant|swap|replace|take|drop|align_of)$", r"^core::hint::must_use$", r"^<core::mem::Discriminant<T> as .*>::(hash|eq)$",
    r"^core::hash::Hash::hash$", r"^<.* as core::hash::Hash>::hash$", r"^core::hash::Hasher::.*$",
    r"^std::io::Read::(read_exact|by_ref|read_to_end|read)$", r"^std::io::Seek::(seek|stream_position|rewind)$", r"^std::io::cursor::Cursor::<T>::(new|position|into_inner|get_ref)$",
    r"^<.* as std::io::(Read|Seek)>::(read_exact|read|seek|stream_position|read_to_end)$", r"^std::io::impls::<impl std::io::Read for &\[u8\]>::.*$",
    r"^bincode::config::(DefaultOptions::new|Options::(with_fixint_encoding|with_big_endian|deserialize_from|with_little_endian|with_varint_encoding|with_limit|allow_trailing_bytes))$",
    r"^bzip2::read::BzDecoder::<R>::new$",
    r"^chrono::naive::date::NaiveDate::(from_ymd_opt|parse_from_str|format|checked_add_signed|checked_sub_signed|from_num_days_from_ce_opt)$",
    r"^chrono::naive::time::NaiveTime::(from_num_seconds_from_midnight_opt|parse_from_str|from_hms_opt)$", r"^chrono::naive::datetime::NaiveDateTime::(new|and_utc)$",
    r"^<chrono::naive::time::NaiveTime as core::ops::arith::(Add|Sub)<chrono::time_delta::TimeDelta>>::(add|sub)$",
    r"^chrono::datetime::DateTime::<.*>::(from_naive_utc_and_offset|timestamp_millis|timestamp|parse_from_rfc3339|parse_from_rfc2822|with_timezone|signed_duration_since|from_timestamp_millis|format|checked_add_signed|checked_sub_signed|naive_utc|to_rfc3339|date_naive|time)$",
    r"^chrono::time_delta::TimeDelta::(num_milliseconds|num_seconds|to_std|zero|try_days|try_seconds|try_milliseconds|try_minutes|num_minutes|num_days|abs|is_zero)$", r"^chrono::offset::utc::Utc::now$",
    r"^<chrono::time_delta::TimeDelta as core::ops::arith::AddAssign>::add_assign$", r"^<chrono::datetime::DateTime<Tz> as core::ops::arith::Sub(<.*>)?>::sub$",
    r"^serde(_core)?::.*$", r"^<.* as serde(_core)?::.*$",
    r"^core::fmt::.*$", r"^<.* as core::fmt::(Debug|Display)>::fmt$", r"^alloc::fmt::format$", r"^core::fmt::rt::.*$",
    r"^log::(__private_api::(loc|log|enabled)|max_level)$", r"^log::.*$",
    r"^alloc::boxed::Box::<T>::new$", r"^alloc::sync::Arc::<T>::new$", r"^alloc::rc::Rc::<T>::new$",
    r"^std::collections::hash::(map::HashMap|set::HashSet)::<.*>::(new|entry|get|get_mut|insert|is_empty|iter|keys|values|contains_key|contains|len|remove|with_capacity|values_mut|iter_mut)$",
    r"^std::collections::hash::map::Entry::<'a, K, V>::(or_default|or_insert|or_insert_with|and_modify)$",
    r"^alloc::collections::vec_deque::VecDeque::<T, A>::(is_empty|iter|len|pop_front|push_back|pop_back|push_front|front|back|clear|truncate|new|with_capacity|get)$",
    r"^<alloc::collections::vec_deque::VecDeque<T> as core::convert::From<\[T; N\]>>::from$",
    r"^core::sync::atomic::Atomic::<.*>::(fetch_add|load|store|new|fetch_sub)$", r"^std::sync::mpsc::(Sender|Receiver)::<T>::(send|try_recv|recv|recv_timeout)$",
    r"^core::time::Duration::(from_millis|from_secs|as_millis|as_secs|as_secs_f64|new|from_micros|saturating_mul|checked_mul|saturating_sub|checked_sub|saturating_add|checked_add)$",
    r"^tokio::time::(instant::Instant::now|sleep::(sleep|sleep_until))$", r"^<tokio::time::sleep::Sleep as core::future::future::Future>::poll$",
    r"^reqwest::(get|async_impl::response::Response::(status|headers|bytes|text))$", r"^reqwest::.*::\{closure#0\}$",
    r"^http::header::(map::HeaderMap::<T>::get|value::HeaderValue::to_str)$", r"^<bytes::bytes::Bytes as core::ops::deref::Deref>::deref$",
    r"^http::status::.*$", r"^<http::status::StatusCode as .*$",
    r"^xml::reader::EventReader::<R>::new$", r"^<xml::reader::(EventReader|Events)<R> as .*>::(into_iter|next)$",
    r"^core::future::(get_context|into_future::IntoFuture::into_future|future::Future::poll)$", r"^<F as core::future::into_future::IntoFuture>::into_future$",
    r"^core::pin::Pin::<Ptr>::(new_unchecked|new|as_mut|get_mut)$", r"^core::ops::function::(Fn|FnMut|FnOnce)::(call|call_mut|call_once)$",
    r"^core::ops::range::RangeInclusive::<Idx>::(contains|new)$", r"^core::ops::range::Range::<Idx>::contains$",
    r"^uom::si::.*>::new$", r"^uom::.*$", r"^<uom::.*$",
    r"^core::ops::arith::(Add|Sub|Mul)::(add|sub|mul)$", r"^<&usize as core::ops::arith::Add<usize>>::add$",
    r"^core::char::methods::<impl char>::.*$", r"^core::str::iter::.*$", r"^thiserror::.*$", r"^<.* as core::error::Error>::.*$",
    r"^core::array::<impl \[T; N\]>::(as_slice|as_mut_slice|iter|map|each_ref)$", r"^core::array::<impl .*>::(as_ref|as_mut|borrow|into_iter|try_from|eq|ne)$",
    # ---- widened after the refactoring corpus (seeded/refactor): total std APIs a maintainer is likely to reach for
    r"^core::option::Option::<.*>::(flatten|as_deref|as_deref_mut|inspect|take_if|insert|get_or_insert|unzip|is_some_or|as_slice|iter_mut|transpose|and_then|or|as_pin_ref)$",
    r"^core::result::Result::<.*>::(inspect|inspect_err|iter_mut|and|or|transpose|copied|cloned|flatten|as_mut|as_deref|is_ok_and|is_err_and|unwrap_or_default)$",
    r"^core::bool::<impl bool>::(then|then_some)$",
    r"^core::iter::traits::iterator::Iterator::(try_for_each|try_fold|product|min_by|max_by|unzip|partition|reduce|scan|map_while|cycle|fuse|eq|ne|lt|le|cmp|is_sorted|rposition|try_find|copied|nth|advance_by|size_hint|collect_into|intersperse|array_chunks|filter_map|enumerate|last|step_by_unchecked)$",
    r"^core::iter::traits::(exact_size::ExactSizeIterator::len|double_ended::DoubleEndedIterator::(nth_back|rfind|rfold|try_rfold))$",
    r"^core::iter::(sources::(empty|once|repeat|repeat_n|from_fn|successors|once_with)::.*|adapters::.*|traits::collect::FromIterator::from_iter)$", r"^<.* as core::iter::traits::collect::FromIterator<.*>>::from_iter$",
    r"^core::iter::(empty|once|repeat|repeat_n|from_fn|successors|zip)$",
    r"^core::slice::<impl \[T\]>::(last_mut|first_mut|split_first_mut|split_last_mut|first_chunk_mut|split_at_mut_checked|iter|concat|join|to_vec|as_mut_ptr|is_sorted|is_sorted_by_key|rsplit|split|splitn|strip_prefix|strip_suffix|partition_point|binary_search_by|sort_unstable_by|select_nth_unstable|swap_with_slice|as_chunks|as_rchunks|split_last_chunk|get_disjoint_mut|trim_ascii|trim_ascii_start|trim_ascii_end|escape_ascii|is_ascii|eq_ignore_ascii_case|to_ascii_uppercase|to_ascii_lowercase|repeat|iter_mut|chunk_by|rsplitn|split_inclusive|as_array)$",
    r"^alloc::slice::<impl \[T\]>::(sort_by_cached_key|to_vec_in|repeat)$", r"^alloc::slice::<impl alloc::borrow::ToOwned for \[T\]>::to_owned$",
    r"^alloc::vec::Vec::<.*>::(extend_from_within_checked|dedup_by_key|dedup_by|retain_mut|resize|resize_with|leak|spare_capacity_mut|try_reserve|reserve_exact|shrink_to|first_mut|last_mut|iter_mut|splice_checked|pop_if|push_within_capacity|into_iter|from_iter|as_mut_ptr|is_full|extend_one)$",
    r"^alloc::boxed::Box::<.*>::(new_uninit|new_zeroed|write|into_inner|leak|pin|from_raw|into_raw|as_ref|as_mut)$", r"^alloc::boxed::box_assume_init_into_vec_unsafe$", r"^alloc::boxed::(box_new_uninit|Box::<.*>::assume_init)$",
    r"^alloc::str::<impl alloc::borrow::ToOwned for str>::to_owned$", r"^alloc::borrow::ToOwned::(to_owned|clone_into)$", r"^alloc::borrow::Cow::<'_, B>::(into_owned|to_mut|is_borrowed|is_owned)$", r"^<.* as alloc::borrow::ToOwned>::to_owned$",
    r"^core::str::converts::(from_utf8|from_utf8_mut)$", r"^core::str::<impl str>::(split_terminator|rsplitn|split_whitespace|split_ascii_whitespace|char_indices|matches|rmatches|match_indices|rfind|trim_matches|trim_start_matches|trim_end_matches|is_ascii|eq_ignore_ascii_case|to_ascii_uppercase|to_ascii_lowercase|encode_utf16|escape_debug|escape_default|split_inclusive|as_ptr|trim_ascii|bytes|chars|from_utf8|repeat|lines|into_string|into_boxed_str|make_ascii_uppercase|make_ascii_lowercase|get_mut|floor_char_boundary|ceil_char_boundary)$",
    r"^alloc::string::String::(from_utf8_lossy_owned|insert_str_checked|pop|truncate_checked|retain|into_boxed_str|as_mut_str|capacity|reserve|shrink_to_fit|extend|from_utf16_lossy|chars|leak)$",
    r"^core::num::<impl [iu](8|16|32|64|128|size)>::(is_negative|is_positive|signum|to_le_bytes|to_ne_bytes|from_ne_bytes|wrapping_neg|wrapping_shl|wrapping_shr|wrapping_abs|wrapping_div_checked|overflowing_mul|overflowing_neg|saturating_neg|saturating_abs|saturating_pow|saturating_sub_unsigned|saturating_add_signed|checked_neg|checked_abs|checked_pow|checked_rem|checked_shl|checked_shr|checked_add_signed|checked_sub_unsigned|checked_next_power_of_two|checked_ilog2|checked_ilog10|cast_signed|cast_unsigned|count_zeros|leading_ones|trailing_ones|reverse_bits|to_be|to_le|from_be|from_le|is_multiple_of|midpoint|checked_signed_diff|unbounded_shl|unbounded_shr|carrying_add|borrowing_sub|widening_mul|isqrt_checked|checked_isqrt)$",
    r"^core::num::<impl u8>::(is_ascii|is_ascii_digit|is_ascii_alphabetic|is_ascii_alphanumeric|is_ascii_uppercase|is_ascii_lowercase|is_ascii_whitespace|is_ascii_punctuation|is_ascii_graphic|is_ascii_hexdigit|is_ascii_control|to_ascii_uppercase|to_ascii_lowercase|eq_ignore_ascii_case|as_ascii|escape_ascii)$",
    r"^core::f(32|64)::<impl f(32|64)>::(is_infinite|is_sign_negative|is_sign_positive|is_normal|is_subnormal|recip|copysign|total_cmp|to_be_bytes|to_le_bytes|from_be_bytes|from_le_bytes|maximum|minimum|midpoint|mul_add|rem_euclid|div_euclid|trunc|fract|floor|ceil|round|sqrt|powi|abs_sub)$",
    r"^std::f(32|64)::<impl f(32|64)>::(trunc|fract|round_ties_even|cbrt|hypot|exp2|log2|log|ln_1p|exp_m1|sinh|cosh|tanh|asin|acos|atan|sin_cos|rem_euclid|div_euclid|signum|copysign|abs_sub)$",
    r"^core::convert::num::<impl core::convert::(From|TryFrom)<.*> for .*>::(from|try_from)$", r"^core::convert::num::.*$", r"^core::convert::(identity|Infallible)$",
    r"^core::array::<impl \[T; N\]>::(each_mut|as_mut_slice|rsplit_array_ref|split_array_ref|try_map_checked|into_iter)$", r"^core::array::(from_fn|from_ref|iter::.*)$",
    r"^core::ops::range::(Range|RangeInclusive|RangeFrom|RangeTo)::<Idx>::(is_empty|start|end|into_inner|contains)$", r"^core::ops::range::RangeBounds::(contains|start_bound|end_bound)$",
    r"^core::ops::bit::(BitAnd|BitOr|BitXor|Not|Shl|Shr)::(bitand|bitor|bitxor|not)$", r"^<.* as core::ops::bit::(BitAnd|BitOr|BitXor|Not)(<.*>)?>::(bitand|bitor|bitxor|not)$",
    r"^core::ops::control_flow::ControlFlow::<.*>::(is_break|is_continue|break_value|continue_value|map_break|map_continue)$",
    r"^<core::ops::control_flow::ControlFlow<.*> as core::ops::try_trait::(Try|FromResidual<.*>)>::(branch|from_residual|from_output)$",
    r"^chrono::naive::date::NaiveDate::(and_time|and_hms_opt|and_hms_milli_opt|and_hms_micro_opt|and_hms_nano_opt|from_yo_opt|from_isoywd_opt|succ_opt|pred_opt|checked_add_days|checked_sub_days|checked_add_months|checked_sub_months|signed_duration_since|num_days_from_ce|year|month|day|ordinal|weekday|from_epoch_days|to_epoch_days|iter_days)$",
    r"^<chrono::naive::date::NaiveDate as chrono::traits::Datelike>::.*$", r"^<chrono::.* as chrono::traits::(Datelike|Timelike)>::.*$", r"^chrono::traits::(Datelike|Timelike)::.*$",
    r"^chrono::naive::Days::new$", r"^chrono::month::Months::new$",
    r"^chrono::naive::time::NaiveTime::(overflowing_add_signed|overflowing_sub_signed|signed_duration_since|from_hms_milli_opt|from_hms_micro_opt|from_hms_nano_opt|from_num_seconds_from_midnight_opt|num_seconds_from_midnight|format|hour|minute|second|nanosecond)$",
    r"^chrono::naive::datetime::NaiveDateTime::(checked_add_signed|checked_sub_signed|date|time|and_local_timezone|signed_duration_since|format|timestamp|timestamp_millis|and_utc)$",
    r"^chrono::datetime::DateTime::<.*>::(from_timestamp|from_timestamp_millis|from_timestamp_micros|from_timestamp_nanos|naive_utc|naive_local|date_naive|time|timezone|offset|to_utc|timestamp_micros|timestamp_nanos_opt|timestamp_subsec_millis|timestamp_subsec_micros|timestamp_subsec_nanos|to_rfc3339|to_rfc2822|checked_sub_signed|checked_add_months|checked_sub_months|checked_add_days|checked_sub_days|fixed_offset)$",
    r"^chrono::time_delta::TimeDelta::(try_hours|try_weeks|new|num_hours|num_weeks|num_microseconds|num_nanoseconds|subsec_nanos|checked_add|checked_sub|checked_mul|checked_div|min_value|max_value|from_std|nanoseconds|microseconds)$",
    r"^<chrono::.* as core::cmp::(PartialEq|PartialOrd|Ord)(<.*>)?>::.*$", r"^<chrono::.* as core::(clone::Clone|marker::Copy|fmt::(Debug|Display)|hash::Hash|default::Default)>::.*$",
    r"^std::collections::hash::map::HashMap::<.*>::(entry|get_or_insert_with|get_key_value|retain|drain|clear|extend|into_keys|into_values|reserve|shrink_to_fit|try_insert|remove_entry|get_many_mut)$",
    r"^std::collections::hash::map::(Entry|OccupiedEntry|VacantEntry)::<.*>::(or_insert_with_key|key|get|get_mut|into_mut|insert|insert_entry|remove|or_default|or_insert|or_insert_with|and_modify)$",
    r"^<std::collections::hash::(map::HashMap|set::HashSet)<.*> as core::(iter::traits::collect::(Extend|FromIterator|IntoIterator)<.*>|default::Default)>::.*$",
    r"^alloc::collections::(btree::map::BTreeMap|btree::set::BTreeSet)::<.*>::(new|insert|get|get_mut|contains_key|contains|remove|len|is_empty|iter|keys|values|entry|first_key_value|last_key_value|range|pop_first|pop_last|clear|extend|retain)$",
    r"^alloc::collections::vec_deque::VecDeque::<.*>::(extend|iter_mut|front_mut|back_mut|get_mut|make_contiguous|as_slices|contains|retain|reserve|drain_checked|append|resize|rotate_left_checked)$",
    r"^<alloc::collections::vec_deque::VecDeque<.*> as core::(iter::traits::collect::(Extend|FromIterator|IntoIterator)<.*>|default::Default|convert::From<.*>)>::.*$",
    r"^core::mem::(forget|needs_drop|size_of_val|align_of_val|zeroed_checked|transmute_copy_checked|variant_count)$", r"^core::mem::maybe_uninit::MaybeUninit::<T>::(uninit|new|write|as_ptr|as_mut_ptr)$",
    r"^core::cmp::(Reverse|Ordering::(is_eq|is_ne|is_lt|is_gt|is_le|is_ge|reverse|then|then_with))$", r"^core::cmp::Ordering::.*$", r"^core::cmp::(min_by|max_by|min_by_key|max_by_key)$",
    r"^core::ops::function::(Fn|FnMut|FnOnce)::.*$", r"^<.* as core::ops::function::(Fn|FnMut|FnOnce)<.*>>::(call|call_mut|call_once)$",
    r"^core::borrow::(Borrow|BorrowMut)::(borrow|borrow_mut)$", r"^<.* as core::borrow::(Borrow|BorrowMut)<.*>>::(borrow|borrow_mut)$",
    r"^core::marker::.*$", r"^core::alloc::layout::Layout::(new|for_value|size|align)$",
    r"^std::io::error::Error::(kind|new|other|raw_os_error|get_ref|into_inner|last_os_error|from_raw_os_error)$", r"^<std::io::error::(Error|ErrorKind) as .*>::.*$", r"^std::io::error::ErrorKind::.*$",
    r"^std::io::(Read|BufRead|Write|Seek)::(take|bytes|chain|read_to_string|read_line|lines|write_all|flush|seek_relative|stream_len)$", r"^std::io::cursor::Cursor::<T>::(set_position|get_mut|remaining_slice|is_empty)$",
    r"^std::io::buffered::(bufreader::BufReader|bufwriter::BufWriter)::<.*>::(new|with_capacity|get_ref|get_mut|into_inner|buffer|capacity)$", r"^<std::io::.* as std::io::(Read|Seek|BufRead|Write)>::.*$",
    r"^core::intrinsics::(discriminant_value|size_of|cold_path|likely|unlikely)$", r"^core::ptr::.*$", r"^core::any::.*$",
]

_PANIC = [re.compile(p) for p in PANIC]
_UNWRAP = [re.compile(p) for p in UNWRAP]
_PARTIAL = [(re.compile(p), r) for p, r in PARTIAL.items()]
_TOTAL = [re.compile(p) for p in TOTAL]


def classify(name):
    """-> ('panic',None) | ('unwrap',None) | ('partial',rule) | ('total',None) | ('unclassified',None)"""
    for r in _PANIC:
        if r.search(name):
            return "panic", None
    for r in _UNWRAP:
        if r.search(name):
            return "unwrap", None
    for r, rule in _PARTIAL:
        if r.search(name):
            return "partial", rule
    for r in _TOTAL:
        if r.search(name):
            return "total", None
    return "unclassified", None
