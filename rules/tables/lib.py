"""Library classification — trusted base of R-PANIC / R-TERM (DESIGN Appendix C).
Keys are resolved definition paths as printed by the driver (generic args stripped by rustc)."""
import re

# always a panic when reached
PANIC = [
    r"^core::panicking::", r"^std::rt::begin_panic", r"^core::option::unwrap_failed", r"^core::option::expect_failed",
    r"^core::result::unwrap_failed", r"^core::slice::index::slice_.*_fail", r"^core::str::slice_error_fail",
    r"^std::panicking::", r"^core::panicking::panic_fmt",
]
# panics on some argument values; an obligation unless a precondition rule discharges it
UNWRAP = [
    r"^core::option::Option::<T>::(unwrap|expect)$", r"^core::result::Result::<T, E>::(unwrap|expect|unwrap_err|expect_err)$",
]
# partial functions with a precondition the interval analysis may discharge; value = rule name in nx/panics.py
PARTIAL = {
    r"^core::slice::index::<impl core::ops::index::Index(Mut)?<I> for \[T\]>::index(_mut)?$": "slice_index",
    r"^<alloc::vec::Vec<T, A> as core::ops::index::Index(Mut)?<I>>::index(_mut)?$": "slice_index",
    r"^core::str::traits::<impl core::ops::index::Index<I> for str>::index$": "str_index",
    r"^<alloc::string::String as core::ops::index::Index<I>>::index$": "str_index",
    r"^core::slice::<impl \[T\]>::copy_from_slice$": "copy_from_slice",
    r"^core::slice::<impl \[T\]>::clone_from_slice$": "copy_from_slice",
    r"^core::slice::<impl \[T\]>::split_at(_mut)?$": "split_at",
    r"^core::slice::<impl \[T\]>::(chunks|chunks_exact|windows|chunks_mut|rchunks)$": "nonzero_arg1",
    r"^core::num::<impl i(8|16|32|64|128|size)>::abs$": "abs",
    r"^core::num::<impl [iu](8|16|32|64|128|size)>::pow$": "pow",
    r"^chrono::time_delta::TimeDelta::(days|hours|minutes|seconds)$": "timedelta_ctor",
    r"^chrono::time_delta::TimeDelta::milliseconds$": "timedelta_ms",
    r"^<chrono::naive::date::NaiveDate as core::ops::arith::(Add|Sub)<chrono::time_delta::TimeDelta>>::(add|sub)$": "date_plus_delta",
    r"^<chrono::datetime::DateTime<Tz> as core::ops::arith::(Add|Sub)<chrono::time_delta::TimeDelta>>::(add|sub)$": "datetime_plus_delta",
    r"^<chrono::naive::datetime::NaiveDateTime as core::ops::arith::(Add|Sub)<chrono::time_delta::TimeDelta>>::(add|sub)$": "datetime_plus_delta",
    r"^<(tokio::time::instant::Instant|std::time::Instant) as core::ops::arith::Add<core::time::Duration>>::add$": "instant_plus",
    r"^alloc::vec::Vec::<T, A>::(remove|insert|swap_remove|split_off|drain)$": "vec_index",
    r"^alloc::collections::vec_deque::VecDeque::<T, A>::(remove|insert|swap|range|drain)$": "vec_index",
    r"^<alloc::collections::vec_deque::VecDeque<T, A> as core::ops::index::Index<usize>>::index$": "vec_index",
    r"^<std::collections::hash::map::HashMap<K, V, S> as core::ops::index::Index<&Q>>::index$": "vec_index",
    r"^core::ops::arith::(Div|Rem)::(div|rem)$": "vec_index",
    r"^core::iter::traits::iterator::Iterator::(step_by)$": "nonzero_arg1",
    r"^core::time::Duration::(from_secs_f32|from_secs_f64|mul_f32|mul_f64)$": "vec_index",
    r"^<core::time::Duration as core::ops::arith::(Add|Sub|Mul)(<.*>)?>::(add|sub|mul)$": "vec_index",
    r"^core::cell::RefCell::<T>::(borrow|borrow_mut)$": "vec_index",
}
# total for every argument (may return Err/None; allocation failure aborts, it does not unwind)
TOTAL = [
    r"^core::option::Option::<.*>::(map|and_then|ok_or|ok_or_else|is_some|is_none|is_some_and|as_ref|as_mut|take|unwrap_or|unwrap_or_else|unwrap_or_default|cloned|copied|or|or_else|filter|map_or|map_or_else|iter|replace|get_or_insert_with|zip|xor|and|ok|is_none_or)$",
    r"^core::result::Result::<T, E>::(map|map_err|ok|err|is_ok|is_err|and_then|or_else|unwrap_or|unwrap_or_else|unwrap_or_default|as_ref|map_or|map_or_else|iter)$",
    r"^<core::(option::Option|result::Result)<.*> as core::ops::try_trait::(Try|FromResidual<.*>)>::(branch|from_residual|from_output)$",
    r"^core::ops::try_trait::(Try|FromResidual)::(branch|from_residual|from_output)$",
    r"^core::iter::traits::iterator::Iterator::(map|filter|filter_map|enumerate|copied|cloned|skip|take|last|nth|any|all|collect|rev|zip|chain|count|next|find|position|fold|for_each|peekable|flatten|flat_map|take_while|skip_while|min|max|min_by_key|max_by_key|find_map|sum|by_ref|inspect|last)$",
    r"^<.* as core::iter::traits::iterator::Iterator>::(next|last|nth|size_hint|count)$",
    r"^core::iter::range::<impl core::iter::traits::iterator::Iterator for core::ops::range::Range<A>>::next$",
    r"^core::iter::traits::double_ended::DoubleEndedIterator::(rev|next_back)$",
    r"^<.* as core::iter::traits::collect::IntoIterator>::into_iter$", r"^core::iter::traits::collect::IntoIterator::into_iter$",
    r"^<alloc::vec::Vec<T, A> as core::iter::traits::collect::Extend<.*>>::extend$", r"^core::iter::traits::collect::Extend::extend$",
    r"^alloc::vec::Vec::<.*>::(new|push|with_capacity|len|is_empty|first|last|as_slice|as_mut_slice|iter|clear|pop|truncate|extend_from_slice|reserve|capacity|append|retain|dedup|into_boxed_slice|shrink_to_fit|as_ptr)$",
    r"^alloc::vec::from_elem$", r"^alloc::slice::<impl \[T\]>::(to_vec|sort_by_key|sort|sort_by|into_vec|concat|join)$",
    r"^core::slice::<impl \[T\]>::(len|get|get_mut|iter|iter_mut|first|last|is_empty|first_chunk|last_chunk|split_at_checked|split_first|split_last|starts_with|ends_with|contains|sort_unstable|sort_unstable_by_key|reverse|fill|to_owned|as_ptr|binary_search|binary_search_by_key|split_first_chunk)$",
    r"^core::str::<impl str>::(get|len|split|chars|parse|as_bytes|is_empty|trim|starts_with|ends_with|contains|find|to_owned|bytes|split_once|rsplit|lines|char_indices|is_char_boundary|strip_prefix|strip_suffix|trim_end|trim_start|rsplit_once|splitn|to_uppercase|to_lowercase|eq_ignore_ascii_case)$",
    r"^alloc::str::<impl str>::(to_string|to_owned|to_uppercase|to_lowercase|replace|repeat)$",
    r"^alloc::string::String::(new|push_str|push|from_utf8|from_utf8_lossy|as_str|as_bytes|len|is_empty|with_capacity|clear|into_bytes)$",
    r"^alloc::string::ToString::to_string$", r"^<.* as alloc::string::ToString>::to_string$",
    r"^<.* as core::ops::deref::Deref(Mut)?>::deref(_mut)?$", r"^core::ops::deref::Deref(Mut)?::deref(_mut)?$",
    r"^<.* as core::convert::AsRef<.*>>::as_ref$", r"^core::convert::AsRef::as_ref$", r"^core::array::<impl core::convert::AsRef<\[T\]> for \[T; N\]>::as_ref$",
    r"^<.* as core::convert::(From|Into|TryFrom|TryInto)<.*>>::(from|into|try_from|try_into)$", r"^core::convert::(From|Into|TryInto|TryFrom)::(from|into|try_into|try_from)$",
    r"^<.* as core::clone::Clone>::clone$", r"^core::clone::Clone::clone$", r"^<.* as core::default::Default>::default$", r"^core::default::Default::default$",
    r"^<.* as core::cmp::(PartialEq|PartialOrd|Ord|Eq)(<.*>)?>::(eq|ne|lt|le|gt|ge|cmp|partial_cmp|min|max)$",
    r"^core::cmp::(PartialEq|PartialOrd|Ord)::(eq|ne|lt|le|gt|ge|cmp|partial_cmp|min|max)$", r"^core::cmp::impls::<impl .*>::(eq|ne|lt|le|gt|ge|cmp|partial_cmp)$",
    r"^core::str::traits::<impl core::cmp::PartialEq for str>::(eq|ne)$", r"^core::(slice::cmp|array::equality)::<impl .*>::(eq|ne)$", r"^core::cmp::(min|max)$",
    r"^core::num::<impl [iu](8|16|32|64|128|size)>::(from_be_bytes|from_le_bytes|to_be_bytes|unsigned_abs|saturating_sub|saturating_add|saturating_mul|checked_add|checked_sub|checked_mul|checked_div|wrapping_add|wrapping_sub|wrapping_mul|min|max|count_ones|leading_zeros|trailing_zeros|is_power_of_two|abs_diff|rotate_left|rotate_right|swap_bytes|to_string|overflowing_add|overflowing_sub)$",
    r"^std::f(32|64)::<impl f(32|64)>::(powf|powi|sqrt|abs|floor|ceil|round|mul_add|ln|log10|exp|sin|cos|tan|atan2|to_degrees|to_radians|min|max|is_nan|is_finite)$",
    r"^core::f(32|64)::<impl f(32|64)>::(abs|to_degrees|to_radians|min|max|is_nan|is_finite|to_bits|from_bits|clamp|signum)$",
    r"^core::mem::(size_of|discriminant|swap|replace|take|drop|align_of)$", r"^core::hint::must_use$", r"^<core::mem::Discriminant<T> as .*>::(hash|eq)$",
    r"^core::hash::Hash::hash$", r"^<.* as core::hash::Hash>::hash$", r"^core::hash::Hasher::.*$",
    r"^std::io::Read::(read_exact|by_ref|read_to_end|read)$", r"^std::io::Seek::(seek|stream_position|rewind)$", r"^std::io::cursor::Cursor::<T>::(new|position|into_inner|get_ref)$",
    r"^<.* as std::io::(Read|Seek)>::(read_exact|read|seek|stream_position|read_to_end)$", r"^std::io::impls::<impl std::io::Read for &\[u8\]>::.*$",
    r"^bincode::config::(DefaultOptions::new|Options::(with_fixint_encoding|with_big_endian|deserialize_from|with_little_endian|with_varint_encoding|with_limit|allow_trailing_bytes))$",
    r"^bzip2::read::BzDecoder::<R>::new$",
    r"^chrono::naive::date::NaiveDate::(from_ymd_opt|parse_from_str|format|checked_add_signed|checked_sub_signed|from_num_days_from_ce_opt)$",
    r"^chrono::naive::time::NaiveTime::(from_num_seconds_from_midnight_opt|parse_from_str|from_hms_opt)$", r"^chrono::naive::datetime::NaiveDateTime::(new|and_utc)$",
    r"^<chrono::naive::time::NaiveTime as core::ops::arith::(Add|Sub)<chrono::time_delta::TimeDelta>>::(add|sub)$",
    r"^chrono::datetime::DateTime::<.*>::(from_naive_utc_and_offset|timestamp_millis|timestamp|parse_from_rfc3339|parse_from_rfc2822|with_timezone|signed_duration_since|from_timestamp_millis|format|checked_add_signed|checked_sub_signed|naive_utc|to_rfc3339|date_naive|time)$",
    r"^chrono::time_delta::TimeDelta::(num_milliseconds|num_seconds|to_std|zero|try_days|try_seconds|try_milliseconds|try_minutes|num_minutes|num_days|abs|is_zero)$", r"^chrono::offset::utc::Utc::now$",
    r"^<chrono::time_delta::TimeDelta as core::ops::arith::AddAssign>::add_assign$", r"^<chrono::datetime::DateTime<Tz> as core::ops::arith::Sub(<.*>)?>::sub$",
    r"^serde(_core)?::.*$", r"^<.* as serde(_core)?::.*$",
    r"^core::fmt::.*$", r"^<.* as core::fmt::(Debug|Display)>::fmt$", r"^alloc::fmt::format$", r"^core::fmt::rt::.*$",
    r"^log::(__private_api::(loc|log|enabled)|max_level)$", r"^log::.*$",
    r"^alloc::boxed::Box::<T>::new$", r"^alloc::sync::Arc::<T>::new$", r"^alloc::rc::Rc::<T>::new$",
    r"^std::collections::hash::(map::HashMap|set::HashSet)::<.*>::(new|entry|get|get_mut|insert|is_empty|iter|keys|values|contains_key|contains|len|remove|with_capacity|values_mut|iter_mut)$",
    r"^std::collections::hash::map::Entry::<'a, K, V>::(or_default|or_insert|or_insert_with|and_modify)$",
    r"^alloc::collections::vec_deque::VecDeque::<T, A>::(is_empty|iter|len|pop_front|push_back|pop_back|push_front|front|back|clear|truncate|new|with_capacity|get)$",
    r"^<alloc::collections::vec_deque::VecDeque<T> as core::convert::From<\[T; N\]>>::from$",
    r"^core::sync::atomic::Atomic::<.*>::(fetch_add|load|store|new|fetch_sub)$", r"^std::sync::mpsc::(Sender|Receiver)::<T>::(send|try_recv|recv|recv_timeout)$",
    r"^core::time::Duration::(from_millis|from_secs|as_millis|as_secs|as_secs_f64|new|from_micros|saturating_mul|checked_mul|saturating_sub|checked_sub|saturating_add|checked_add)$",
    r"^tokio::time::(instant::Instant::now|sleep::(sleep|sleep_until))$", r"^<tokio::time::sleep::Sleep as core::future::future::Future>::poll$",
    r"^reqwest::(get|async_impl::response::Response::(status|headers|bytes|text))$", r"^reqwest::.*::\{closure#0\}$",
    r"^http::header::(map::HeaderMap::<T>::get|value::HeaderValue::to_str)$", r"^<bytes::bytes::Bytes as core::ops::deref::Deref>::deref$",
    r"^http::status::.*$", r"^<http::status::StatusCode as .*$",
    r"^xml::reader::EventReader::<R>::new$", r"^<xml::reader::(EventReader|Events)<R> as .*>::(into_iter|next)$",
    r"^core::future::(get_context|into_future::IntoFuture::into_future|future::Future::poll)$", r"^<F as core::future::into_future::IntoFuture>::into_future$",
    r"^core::pin::Pin::<Ptr>::(new_unchecked|new|as_mut|get_mut)$", r"^core::ops::function::(Fn|FnMut|FnOnce)::(call|call_mut|call_once)$",
    r"^core::ops::range::RangeInclusive::<Idx>::(contains|new)$", r"^core::ops::range::Range::<Idx>::contains$",
    r"^uom::si::.*>::new$", r"^uom::.*$", r"^<uom::.*$",
    r"^core::ops::arith::(Add|Sub|Mul)::(add|sub|mul)$", r"^<&usize as core::ops::arith::Add<usize>>::add$",
    r"^core::char::methods::<impl char>::.*$", r"^core::str::iter::.*$", r"^thiserror::.*$", r"^<.* as core::error::Error>::.*$",
    r"^core::array::<impl \[T; N\]>::(as_slice|as_mut_slice|iter|map|each_ref)$", r"^core::array::<impl .*>::(as_ref|as_mut|borrow|into_iter|try_from|eq|ne)$",
    r"^core::intrinsics::(discriminant_value|size_of|cold_path|likely|unlikely)$", r"^core::ptr::.*$", r"^core::any::.*$",
]

_PANIC = [re.compile(p) for p in PANIC]
_UNWRAP = [re.compile(p) for p in UNWRAP]
_PARTIAL = [(re.compile(p), r) for p, r in PARTIAL.items()]
_TOTAL = [re.compile(p) for p in TOTAL]


def classify(name):
    """-> ('panic',None) | ('unwrap',None) | ('partial',rule) | ('total',None) | ('unclassified',None)"""
    for r in _PANIC:
        if r.search(name):
            return "panic", None
    for r in _UNWRAP:
        if r.search(name):
            return "unwrap", None
    for r, rule in _PARTIAL:
        if r.search(name):
            return "partial", rule
    for r in _TOTAL:
        if r.search(name):
            return "total", None
    return "unclassified", None
