"""shared setup for rule modules"""
from nx import extract, ir, sym

_cache = {}


CFG = "all"


def vocabulary():
    """function paths the rules were written against (rules/tables/vocab.txt); a workspace function outside it is a
    helper the rules have no name for and is analysed inlined into its callers"""
    import os
    p = os.path.join(os.path.dirname(os.path.abspath(__file__)), "tables", "vocab.txt")
    out = {}
    with open(p) as fh:
        for l in fh:
            l = l.rstrip("\n")
            if l.strip():
                path, _, sig = l.partition("\t")
                out[path] = sig
    return out


def program(cfg=None):
    cfg = CFG if cfg in (None, "all") else cfg
    if cfg not in _cache:
        d, info = extract.extract(cfg)
        prog = ir.Prog(d)
        info = dict(info, inlined_helpers=prog.inline_helpers(vocabulary()), renamed=getattr(prog, "renamed", {}))
        _cache[cfg] = (prog, info)
        register_from_variants(prog)
    return _cache[cfg]


def register_from_variants(prog):
    """`?` converts an error with `From::from`; for the crates' own error enums that impl (thiserror's #[from]) is
    `|e| Enum::Variant(e)`. Registering those variants lets `x.map_err(Enum::Variant)` and `x?` compare equal."""
    ev = sym.Evaluator(prog)
    for p in list(prog.fns):
        if "core::convert::From<" in p and p.endswith(">::from") and p.startswith("<"):
            f = prog.fn(p)
            if f is None or f.arg_count != 1:
                continue
            try:
                v = ev.eval_fn(f, [sym.P("e")])
            except sym.Undecided:
                continue
            if v[0] == "adt" and len(v[3]) == 1 and v[3][0][1] == sym.P("e"):
                sym.FROM_VARIANTS.add((v[1], v[2]))


def witness():
    if "witness" not in _cache:
        _cache["witness"] = ir.Prog(extract.extract_witness())
    return _cache["witness"]


def at_point(term, atom, value_term):
    """partial evaluation of a closed form at one value of one input atom (constant folding)"""
    return sym.rebuild(term, {atom: value_term})


def note_extraction(chk, info, prog):
    chk.notes["facts"] = {"tree_hash": info.get("tree_hash"), "cached": info.get("cached"),
                          "functions": len(prog.fns), "adts": len(prog.adts), "impls": len(prog.impls),
                          "helpers_inlined_into_callers": info.get("inlined_helpers", [])}


class _Scratch:
    """collects obligations of a rule run on the witness crate (never reported as such)"""
    def __init__(self):
        self.obs, self.notes, self.floors = [], {}, {}

    def ob(self, rule, anchor, ok, detail="", where=None, key=None):
        self.obs.append((rule, anchor, bool(ok), key, detail))
        return ok

    def blind(self, rule, anchor, why, where=None):
        self.obs.append((rule, anchor, False, "blind", why))

    def floor(self, *a):
        pass

    def assume(self, *a):
        pass

    def trust(self, *a):
        pass


def vacuity(chk, families):
    """vacuity guard: each listed rule family must fire on its deliberately violating instance in selftest/witness and
    stay silent on the repaired twin; a family that no longer fires there fails closed"""
    from nx import panics, sym, layout
    wit = witness()
    out = {}
    for fam in families:
        fired, quiet, why = False, False, ""
        try:
            if fam == "R-PANIC":
                s = _Scratch()
                panics.check_no_panic(s, wit, [p for p in wit.fns if "::panics::" in p], "witness")
                bad = {a.split("::")[-1] for r, a, ok, k, d in s.obs if not ok}
                good = {a.split("::")[-1] for r, a, ok, k, d in s.obs if ok}
                fired = {"unguarded_index", "unguarded_range", "unwrap_it", "mul_overflow", "explicit_panic"} <= bad
                quiet = "guarded_index" in good and "mul_ok" in good and "guarded_index" not in bad and "mul_ok" not in bad
            elif fam == "VN-bits":
                ev = sym.Evaluator(wit)
                w = ev.eval_self_fn("nxwitness::terms::W::wrong_mask")
                r = ev.eval_self_fn("nxwitness::terms::W::right_mask")
                word = sym.fld(sym.P("self"), "word")
                want = [(word, 1), (word, 2), (word, 3), 0, 0, 0, 0, 0]
                fired = sym.bits_of(w, 16) != want
                quiet = sym.bits_of(r, 16) == want
            elif fam == "R-TABLE":
                ev = sym.Evaluator(wit)
                t = ev.eval_fn("nxwitness::terms::table", [sym.P("code")])
                two = at_point(t, sym.P("code"), sym.C(2, "u8"))
                one = at_point(t, sym.P("code"), sym.C(1, "u8"))
                fired = two != sym.some(sym.C(2, "u8"))
                quiet = one == sym.some(sym.C(1, "u8"))
            elif fam == "R-WIRE":
                ev = sym.Evaluator(wit)
                t = ev.eval_self_fn("nxwitness::terms::W::a")
                fired = t != sym.fld(sym.P("self"), "a")
                quiet = ev.eval_self_fn("nxwitness::terms::W::bit4") is not None
            elif fam == "R-LIN":
                from rules import c09
                cfgs = {"group": "nxwitness::lin::Group", "radials": "1", "label": "0", "elem_label": "0", "payload_ty": "nxwitness::lin::Payload"}
                s1, s2 = _Scratch(), _Scratch()
                c09.from_radials(s1, wit, dict(cfgs, fn="nxwitness::lin::lose_last"))
                c09.from_radials(s2, wit, dict(cfgs, fn="nxwitness::lin::keep_all"))
                fired = any((not ok) and k and k.startswith("exit:") for r, a, ok, k, d in s1.obs)
                quiet = bool(s2.obs) and all(ok for r, a, ok, k, d in s2.obs)
                why = "; ".join(d[:80] for r, a, ok, k, d in s2.obs if not ok)
            elif fam == "R-TEMPLATE":
                ev = sym.Evaluator(wit)
                t = ev.eval_fn("nxwitness::terms::chunk_name_template", [sym.P("a"), sym.P("b"), sym.P("c")])
                fired = quiet = t[0] == "fmt" and [x[0] for x in t[1]] == ["arg", "lit", "arg", "lit", "arg"] and t[1][2][2] == 3
        except Exception as e:      # a guard that cannot run is a failed guard
            why = "%s: %s" % (type(e).__name__, e)
        out[fam] = bool(fired and quiet)
        if not (fired and quiet):
            chk.blind("vacuity", fam, "rule family does not behave on the witness crate (fires on the violating instance: %s; silent on its repaired twin: %s) %s" % (fired, quiet, why))
    chk.notes["vacuity_guard"] = out
    return out


def says_empty(k, arg):
    """path condition k holds only when the collection `arg` is empty: is_empty(arg) is true, or len(arg) is 0"""
    from nx import sym
    t = k[0]

    def mentions(x):
        return x == arg or (isinstance(x, tuple) and any(mentions(y) for y in x))
    if not mentions(t):
        return False
    is_len = lambda x: isinstance(x, tuple) and x and (x[0] == "len" or (x[0] == "call" and x[1].endswith("::len")))
    if t[0] == "call" and "is_empty" in t[1]:
        return len(k) == 2 and k[1] is True
    if is_len(t):
        return len(k) == 3 and k[2] == ((0, 0),)
    if t[0] in ("eq",) or (t[0] == "bin" and t[1] == "Eq"):
        xs = t[1:] if t[0] == "eq" else t[2:4]
        if any(sym.is_c(x) and x[1] == 0 for x in xs) and any(is_len(x) for x in xs):
            return len(k) == 2 and k[1] is True
    return False


def says_zero(k, term):
    """path condition k holds only when the count `term` (possibly widened) is 0"""
    from nx import sym
    t = k[0]
    while isinstance(t, tuple) and t and t[0] == "cast":
        t = t[1]
    if t == term:
        return len(k) == 3 and k[2] == ((0, 0),)
    if k[0][0] == "bin" and k[0][1] == "Eq" and len(k) == 2 and k[1] is True:
        xs = list(k[0][2:4])
        def strip(x):
            while isinstance(x, tuple) and x and x[0] == "cast":
                x = x[1]
            return x
        return any(strip(x) == term for x in xs) and any(sym.is_c(x) and x[1] == 0 for x in xs)
    return False


def pre_loop_returns(chk, rule, anchor, prog, fn, head, opaque=None, empty_of=None, empty_ok=None, what="the loop", zero_of=None):
    """A loop induction says nothing about code that returns instead of entering the loop. Before the loop a function may
    only (a) fail because a call it made failed — an Err leaf on a path holding a failed step — or (b), when `empty_of` is
    given, return the value `empty_ok` accepts under a condition that says that collection is empty."""
    from nx import sym, loops
    from nx.spec import show
    try:
        pre = [(c_, l_) for c_, l_ in loops.paths(loops.entry_env(prog, fn, head, opaque=opaque or ())[1]) if isinstance(l_, tuple) and l_ and l_[0] != "@join"]
    except sym.Undecided as e:
        chk.blind(rule, anchor, "code before %s could not be evaluated: %s" % (what, e), fn.where())
        return
    bad = []
    for c_, l_ in pre:
        failed = [k for k in c_ if len(k) == 3 and k[0][0] == "discr" and k[2] == ((1, 1),) and (k[0][1][0] == "seq" or (k[0][1][0] == "call" and not k[0][1][1].endswith("::next")))]
        # an earlier loop left through its error exit is a failed step too (that loop is judged by its own summary)
        failed += [k for k in c_ if len(k) == 3 and k[0][0] == "loopexit" and not any(lo <= 0 <= hi for lo, hi in k[2])]
        if l_[0] == "adt" and l_[2] == "Err" and failed:
            continue
        if l_[0] == "ret" and isinstance(l_[-1], tuple) and l_[-1][0] == "adt" and l_[-1][2] == "Err" and failed:
            continue
        if empty_of is not None and any(says_empty(k, empty_of) for k in c_) and (empty_ok is None or empty_ok(l_)):
            continue
        if zero_of is not None and any(says_zero(k, zero_of) for k in c_) and (empty_ok is None or empty_ok(l_)):
            continue
        bad.append("returns %s when %s" % (show(l_)[:70], "; ".join(show(k[0])[:50] for k in c_)[:150] or "always"))
    chk.ob(rule, anchor, not bad, "before %s nothing is returned except the failure of a step%s" % (what, " (or the empty result for an empty input)" if (empty_of is not None or zero_of is not None) else "") if not bad else
           "a result is produced without running %s: %s" % (what, "; ".join(bad)[:360]), fn.where(), key="pre-loop-returns")
