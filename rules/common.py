"""shared setup for rule modules"""
from nx import extract, ir, sym

_cache = {}


def program(cfg="all"):
    if cfg not in _cache:
        d, info = extract.extract(cfg)
        _cache[cfg] = (ir.Prog(d), info)
    return _cache[cfg]


def witness():
    if "witness" not in _cache:
        _cache["witness"] = ir.Prog(extract.extract_witness())
    return _cache["witness"]


def at_point(term, atom, value_term):
    """partial evaluation of a closed form at one value of one input atom (constant folding)"""
    return sym.rebuild(term, {atom: value_term})


def note_extraction(chk, info, prog):
    chk.notes["facts"] = {"tree_hash": info.get("tree_hash"), "cached": info.get("cached"),
                          "functions": len(prog.fns), "adts": len(prog.adts), "impls": len(prog.impls)}
