"""C19 — chunk -> elevation mapping and next-chunk time estimates."""
from nx import sym, loops, interval, panics
from nx.spec import *
from nx.ir import callee_of
from rules import common

LEVEL = "other"
R = "nexrad_data::aws::realtime::"
GE = R + "get_elevation_from_chunk::get_elevation_from_chunk"
E = R + "estimate_next_chunk_time::"
CI = R + "chunk_identifier::ChunkIdentifier::"
HD = "nexrad_decode::messages::volume_coverage_pattern::elevation_data_block::ElevationDataBlock::"
VD = "nexrad_decode::messages::volume_coverage_pattern::definitions::"
TS = R + "chunk_timing_stats::ChunkTimingStats::"
CC = R + "chunk_timing_stats::ChunkCharacteristics"
CT = R + "chunk_type::ChunkType"
HALF = HD + "super_resolution_control_half_degree_azimuth"
SECONDS = "chrono::time_delta::TimeDelta::seconds"


def call(name, *args):
    return ("call", name, tuple(args))


def run(chk, tier):
    prog, info = common.program("all")
    common.note_extraction(chk, info, prog)
    common.vacuity(chk, ['VN-bits', 'R-TABLE'])
    chk.explanation = ("The mapping is decided as a recurrence from the loop's value-numbered summary: None for sequence 1; count_0 = 1; per cut count' = count + "
                       "(6 if half-degree azimuth else 3) (half-degree = C11's bit-0 accessor); return that cut iff sequence <= count' (tested after the update); None "
                       "after the last cut — hence cut k owns (1 + sum_{j<k} w_j, 1 + sum_{j<=k} w_j]. The estimate's decision tree is compared with the "
                       "specification (None outside 1..=55 or without a cut; previous time + 10 s after an end chunk; + mean duration + (mean attempts - 1) s when history "
                       "exists for the next chunk's (type, waveform, phase) key; else + 11/7/4 s). The rolling window is decided structurally: one push_back, and "
                       "the only removal is pop_front under len > 10; the means divide by the length under a non-empty guard.")
    chk.trust("VecDeque::push_back appends, pop_front removes the oldest; DateTime + TimeDelta is exact addition; HashMap lookups are by the Eq of ChunkCharacteristics (decided: key-equality) and its Hash, trusted to be a deterministic function of the key")
    chk.assume("never-earlier-than-previous holds for the history branch only when recorded durations are non-negative and attempts >= 1 (the property's own domain)")
    mapping(chk, prog)
    estimate(chk, prog)
    window(chk, prog)
    key_equality(chk, prog)
    # the (type, waveform, phase) key and the static default are read through the cut's two coded accessors one level down
    # (C11's tables): an accessor that aliases a code changes the default wait and the history bucket
    from rules import c11
    c11.cut_codes(chk, sym.Evaluator(prog))


def key_equality(chk, prog):
    """"history for chunks of the same type/waveform/phase": the history map's key equality is exactly equality of the three
    characteristics — decided by instantiating both operands of PartialEq::eq with every combination of variants"""
    import itertools
    p = "<%s as core::cmp::PartialEq>::eq" % CC
    fn = prog.fn(p)
    a = prog.adts.get(CC)
    if fn is None or a is None:
        chk.blind("VN", p, "the history key's equality (or the key type) was not found")
        return
    try:
        t = sym.Evaluator(prog).eval_fn(p, [P("a"), P("b")])
    except sym.Undecided as e:
        chk.blind("VN", p, "the history key's equality could not be evaluated: %s" % e, fn.where())
        return
    flds = [(f["name"], f["ty"]["adt"] if isinstance(f.get("ty"), dict) and f["ty"].get("adt") else None) for f in a["variants"][0]["fields"]]
    if any(ty is None or ty not in prog.adts or any(v.get("fields") for v in prog.adts[ty]["variants"]) for _f, ty in flds):
        chk.blind("VN", p, "the history key is no longer a record of field-less enums: %s" % flds, fn.where())
        return
    doms = [prog.adts[ty]["variants"] for _f, ty in flds]
    combos = list(itertools.product(*[range(len(d)) for d in doms]))
    if len(combos) ** 2 > 200000:
        chk.blind("VN", p, "too many key values to enumerate (%d)" % len(combos), fn.where())
        return

    def sub(n, c):
        m = {}
        for (f, ty), d, k in zip(flds, doms, c):
            m[("fld", P(n), f)] = unit_variant(ty, d[k]["name"])
            m[("discr", ("fld", P(n), f))] = C(int(d[k]["discr"]), "isize")
        return m
    bad, und = [], 0
    for x in combos:
        mx = sub("a", x)
        for y in combos:
            m = dict(mx)
            m.update(sub("b", y))
            r = sym.rebuild(t, m)
            if r not in (TRUE, FALSE):
                und += 1
            elif (r == TRUE) != (x == y):
                bad.append((x, y))
    def name(c):
        return "/".join(d[k]["name"] for d, k in zip(doms, c))
    okk = not bad and not und
    chk.ob("VN", p, okk, "two history keys are equal exactly when chunk type, waveform and phase are all equal (%d x %d value pairs instantiated)" % (len(combos), len(combos)) if okk else
           ("%d of %d pairs undecided" % (und, len(combos) ** 2) if und and not bad else
            "%d pairs of keys compare wrongly, e.g. %s vs %s: history recorded for one kind of chunk is used for another" % (len(bad), name(bad[0][0]), name(bad[0][1]))),
           fn.where(), key="key-equality")
    chk.floor("history key values", len(combos), 72)


def mapping(chk, prog):
    fn = prog.fn(GE)
    if fn is None:
        chk.blind("VN", GE, "function not found")
        return
    try:
        ls = loops.summarize(prog, fn, opaque=[HALF])
        envs, pre, _ = loops.entry_env(prog, fn, ls[0]["head"], opaque=[HALF]) if ls else (None, None, None)
    except sym.Undecided as e:
        chk.blind("VN", GE, "mapping loop could not be summarised: %s" % e, fn.where())
        return
    chk.ob("VN", GE, len(ls) == 1, "%d loop(s) (one expected)" % len(ls), fn.where(), key="one-loop")
    if len(ls) != 1:
        return
    lp = ls[0]
    w = lp["where"]
    seq, elevs = P(fn.local_name(1) or "sequence"), P(fn.local_name(2) or "elevations")
    early = [(c, l) for c, l in loops.paths(pre) if not (isinstance(l, tuple) and l and l[0] == "@join")]
    okk = len(early) == 1 and early[0][1] == NONE and early[0][0] == ((seq, "usize", ((1, 1),)),)
    chk.ob("VN", GE, okk, "chunk 1 maps to no cut (and nothing else returns before the cuts are walked)", fn.where(), key="chunk-1")
    names = {fn.local_name(l): l for l in lp["tracked"]}
    lc, li = names.get("chunk_count"), names.get("iter")
    if lc is None or li is None:
        chk.blind("VN", GE, "loop state is not (chunk_count, iterator): %s" % sorted(names), w)
        return
    expect(chk, "VN", GE, lp["entry"][lc], C(1, "usize"), w, "the running chunk count starts at 1")
    src = lp["entry"][li]
    chk.ob("VN", GE, src != elevs and iter_source(src) == elevs, "the cuts are walked in order", w, key="source")
    L, I = P("L%d" % lc), P("L%d" % li)
    nxt = ("call", "<core::slice::iter::Iter<'a, T> as core::iter::traits::iterator::Iterator>::next", (I,))
    cut = ("vfld", nxt, "Some", "0")
    count2 = binop("Add", L, ite(call(HALF, cut), C(6, "usize"), C(3, "usize")), "usize")
    hit = binop("Le", seq, count2, "usize")
    seen = set()
    for conds, kind, val in lp["paths"]:
        if kind == "exit:normal":
            seen.add("end")
            chk.ob("VN", GE, len(conds) == 1, "the walk ends only when the cuts are exhausted", w, key="exit-when-exhausted")
        elif kind == "next":
            seen.add("next")
            okk = len(conds) == 2 and conds[1] == (hit, False) and val[lc] == count2 and val[li][0] == "mutated" and val[li][3][0] == I
            chk.ob("VN", GE, okk, "count' = count + (6 if half-degree else 3), continuing iff sequence > count'" if okk else
                   "recurrence differs: continue under %s with count' = %s" % ([show(c[0])[:80] for c in conds[1:]], show(val[lc])[:120]), w, key="recurrence")
        elif isinstance(val, tuple) and val and val[0] == "ret":
            seen.add("hit")
            okk = len(conds) == 2 and conds[1] == (hit, True) and val[2] == some(cut)
            chk.ob("VN", GE, okk, "the cut is returned iff sequence <= count' (tested after the update)" if okk else
                   "return condition/value differs: %s => %s" % ([show(c[0])[:100] for c in conds[1:]], show(val[2])[:100]), w, key="hit")
        else:
            chk.ob("VN", GE, False, "unexpected way out of the loop (%s)" % kind, w, key="exit:" + kind)
    chk.ob("VN", GE, seen == {"end", "next", "hit"}, "the loop has exactly the three outcomes continue / return this cut / cuts exhausted (%s)" % sorted(seen), w, key="outcomes")
    try:
        ret = loops.exit_value(prog, fn, lp, opaque=[HALF])
        expect(chk, "VN", GE, ret, NONE, w, "None beyond the last cut")
    except sym.Undecided as e:
        chk.blind("VN", GE, "exit value undecided: %s" % e, w)
    # the half-degree accessor is bit 0 of the cut's super-resolution byte (C11)
    ev = sym.Evaluator(prog)
    got, f2 = eval_or_blind(chk, ev, "VN", HALF)
    if got is not None:
        b = sym.bits_of(got, 8)
        chk.ob("VN", HALF, b == [(F("super_resolution_control"), 0)], "half-degree azimuth is bit 0 of super_resolution_control", f2.where(), key="bit")


def estimate(chk, prog):
    OP = [CI + "sequence", CI + "date_time", GE, HD + "waveform_type", HD + "channel_configuration", TS + "get_average_timing", TS + "get_average_attempts", E + "get_default_wait_time"]
    ev = sym.Evaluator(prog, opaque_local=OP)
    prev, vcp, stats = P("prev"), P("vcp"), P("stats")
    got, fn = eval_or_blind(chk, ev, "VN", E + "estimate_next_chunk_time", [prev, vcp, stats])
    if got is not None:
        sq = call(CI + "sequence", prev)
        s = ("vfld", sq, "Some", "0")
        s1 = binop("Add", s, C(1, "usize"), "usize")
        tprev = sym.opt_match(call(CI + "date_time", prev), lambda x: x, lambda: call("chrono::offset::utc::Utc::now"))
        plus = lambda d: call("<chrono::datetime::DateTime<Tz> as core::ops::arith::Add<chrono::time_delta::TimeDelta>>::add", tprev, d)
        cutopt = call(GE, s1, fld(vcp, "elevations"))
        cut = ("vfld", cutopt, "Some", "0")
        wf, ch = call(HD + "waveform_type", cut), call(HD + "channel_configuration", cut)
        ctype = table(s1, "usize", [(1, unit_variant(CT, "Start")), (55, unit_variant(CT, "End"))], unit_variant(CT, "Intermediate"))
        key = adt(CC, "ChunkCharacteristics", (("chunk_type", ctype), ("waveform_type", wf), ("channel_configuration", ch)))
        default = call(E + "get_default_wait_time", wf, ch)
        st = ("vfld", stats, "Some", "0")
        avg_t = sym.opt_match(stats, lambda x: call(TS + "get_average_timing", x, key), lambda: NONE)
        avg_a = sym.opt_match(stats, lambda x: call(TS + "get_average_attempts", x, key), lambda: NONE)

        def hist(t_, a_):
            return call("<chrono::time_delta::TimeDelta as core::ops::arith::Add>::add", t_, call(SECONDS, binop("Sub", cast(a_, "f64", "i64"), C(1, "i64"), "i64")))
        wait = sym.opt_match(avg_t, lambda t_: sym.opt_match(avg_a, lambda a_: hist(t_, a_), lambda: default), lambda: default)
        body = sym.opt_match(cutopt, lambda c: some(plus(wait)), lambda: NONE)
        per_seq = mk_cases(s, "usize", ((((1, 54),), body), (((55, 55),), some(plus(call(SECONDS, C(10, "i64"))))), (((0, 0), (56, 2 ** 64 - 1)), NONE)))
        want = sym.opt_match(sq, lambda x: per_seq, lambda: NONE)
        g, w_ = canon_calls(sym.prune(got)), canon_calls(sym.prune(want))
        expect(chk, "VN", E + "estimate_next_chunk_time", g, w_, fn.where(), "decision tree of the estimate (domain, end-of-volume +10 s, history mean + (attempts - 1) s, static default)")
    ev2 = sym.Evaluator(prog)
    got, fn = eval_or_blind(chk, ev2, "R-TABLE", E + "get_default_wait_time", [P("w"), P("c")])
    if got is not None:
        wfd = {v["name"]: int(v["discr"]) for v in prog.adts[VD + "WaveformType"]["variants"]}
        chd = {v["name"]: int(v["discr"]) for v in prog.adts[VD + "ChannelConfiguration"]["variants"]}
        sec = lambda n: call(SECONDS, C(n, "i64"))
        dw, dc = ("discr", P("w")), ("discr", P("c"))
        want = ite(mk_in(dw, "isize", ((wfd["CS"], wfd["CS"]),)), sec(11), ite(mk_in(dc, "isize", ((chd["ConstantPhase"], chd["ConstantPhase"]),)), sec(7), sec(4)))
        expect(chk, "R-TABLE", E + "get_default_wait_time", got, want, fn.where(), "contiguous surveillance 11 s, constant phase 7 s, otherwise 4 s")


def simplify_ranges(t):
    return t


def reaches_before(fn, a, b):
    """every path from a to the function's exit passes through b (b post-dominates a): the eviction is always followed by the append"""
    ip = fn.ipdom()
    x = a
    seen = set()
    while x is not None and x != -1 and x not in seen:
        if x == b:
            return True
        seen.add(x)
        x = ip.get(x)
    return False


def window(chk, prog):
    fn = prog.fn(TS + "add_timing")
    if fn is None:
        chk.blind("R-ORDER", TS + "add_timing", "function not found")
        return
    eng = interval.Engine(prog)
    an = eng.analysis(fn.path)
    MUT = ("push_back", "push_front", "pop_front", "pop_back", "truncate", "clear", "remove", "insert", "drain", "retain", "swap_remove_back", "swap_remove_front", "resize", "append", "split_off", "rotate_left", "rotate_right")
    seen = []
    maxc = prog.consts.get(R + "chunk_timing_stats::MAX_TIMING_SAMPLES", {}).get("int")

    def visit(bb, st, t):
        if t["t"] != "call":
            return
        name = callee_of(t)
        if "vec_deque::VecDeque" in name and name.split("::")[-1] in MUT:
            op = name.split("::")[-1]
            guard = None
            if op == "pop_front":
                # how long the deque is known to be here (lower bound), from ranges and from ordering facts against constants
                lens = [tm for tm in st.rng if isinstance(tm, tuple) and tm and tm[0] in ("ret", "len")]
                lo = max([st.rng[tm][0] for tm in lens] + [0])
                for r in st.rel:
                    if r[0] in ("lt", "le") and sym.is_c(r[1]) and isinstance(r[1][1], int) and isinstance(r[2], tuple) and r[2] and r[2][0] in ("ret", "len"):
                        lo = max(lo, r[1][1] + (1 if r[0] == "lt" else 0))
                guard = lo
            seen.append((op, guard, bb))
    an.visit_sites(visit)
    ops = [o for o, g, b in seen]
    okops = sorted(ops) == ["pop_front", "push_back"]
    chk.ob("R-ORDER", TS + "add_timing", okops, "the window is maintained by exactly one push_back and one guarded pop_front (found %s)" % ops, fn.where(), key="window-ops")
    g = [g for o, g, b in seen if o == "pop_front"]
    pb = [b for o, g, b in seen if o == "push_back"]
    pf = [b for o, g, b in seen if o == "pop_front"]
    if pb:
        # every call records its sample: the append is reached on every path from the entry (no guard turns a sample away)
        chk.ob("R-ORDER", TS + "add_timing", reaches_before(fn, 0, pb[0]), "every call appends its sample (no path returns without the push_back)", fn.where(), key="always-appends")
    if okops and maxc is not None:
        # append-then-trim: the pop needs len > MAX; evict-then-append: the pop needs len >= MAX and must come first on every path
        append_first = fn.dominates(pb[0], pf[0])
        need = maxc + 1 if append_first else maxc
        chk.ob("R-ORDER", TS + "add_timing", g == [need] and maxc == 10, "the oldest sample is removed only when the window is full (MAX_TIMING_SAMPLES = %s; %s: the pop is reached with length >= %s, needs >= %d)" % (
            maxc, "append, then trim" if append_first else "evict, then append", g[0] if g else "?", need), fn.where(), key="window-guard")
        chk.ob("R-ORDER", TS + "add_timing", append_first or reaches_before(fn, pf[0], pb[0]), "the new sample is appended before the window is trimmed, or the eviction precedes the append on its path", fn.where(), key="append-first")
    else:
        chk.ob("R-ORDER", TS + "add_timing", False, "the oldest sample is removed only when the window is full (MAX_TIMING_SAMPLES = %s)" % maxc, fn.where(), key="window-guard")
    # the pushed sample carries this call's duration and attempts
    ev = sym.Evaluator(prog)
    for f, what in ((TS + "get_average_timing", "mean duration"), (TS + "get_average_attempts", "mean attempts")):
        f2 = prog.fn(f)
        if f2 is None:
            chk.blind("VN", f, "function not found")
            continue
        try:
            t = ev.eval_fn(f2, [P("self"), P("characteristics")])
        except sym.Undecided as e:
            chk.blind("VN", f, "mean could not be evaluated: %s" % e, f2.where())
            continue
        leaves = [(cs, l) for cs, l in loops.paths(t) if l != ("unreachable",)]
        # the window: the payload of the map lookup every path starts with
        looks = {c[0][1] for cs, l in leaves for c in cs if len(c) == 3 and c[0][0] == "discr" and c[0][1][0] == "call" and "HashMap::<" in c[0][1][1] and c[0][1][1].endswith(">::get")}
        chk.ob("VN", f, len(looks) == 1, "the window is looked up once by the given characteristics (%d lookup(s))" % len(looks), f2.where(), key="closure")
        if len(looks) != 1:
            continue
        look = next(iter(looks))
        chk.ob("VN", f, look[2] == (fld(P("self"), "timings"), P("characteristics")), "the lookup is self.timings.get(characteristics)", f2.where(), key="lookup")
        tm = ("vfld", look, "Some", "0")
        ln = call("alloc::collections::vec_deque::VecDeque::<T, A>::len", tm)
        empty = call("alloc::collections::vec_deque::VecDeque::<T, A>::is_empty", tm)

        def emptiness(c):
            """True: the condition says the window is empty; False: non-empty; None: says nothing about it"""
            if len(c) == 2 and c[0] == empty:
                return c[1]
            if len(c) == 3 and loops.strip_widen(c[0]) == ln:
                zero = any(lo <= 0 <= hi for lo, hi in c[2])
                return True if c[2] == ((0, 0),) else (False if not zero else None)
            if len(c) == 2 and c[0][0] == "bin" and c[0][1] in ("Eq", "Ne") and {loops.strip_widen(c[0][2]), loops.strip_widen(c[0][3])} == {ln, C(0, "usize")}:
                return c[1] if c[0][1] == "Eq" else (not c[1])
            if len(c) == 2 and c[0][0] == "bin" and c[0][1] in ("Lt", "Gt") and (
                    (c[0][1] == "Lt" and loops.strip_widen(c[0][2]) == C(0, "usize") and loops.strip_widen(c[0][3]) == ln) or
                    (c[0][1] == "Gt" and loops.strip_widen(c[0][2]) == ln and loops.strip_widen(c[0][3]) == C(0, "usize"))):
                return not c[1]
            return None

        def absent(c):
            return len(c) == 3 and c[0] == ("discr", look) and not any(lo <= 1 <= hi for lo, hi in c[2])
        none_l = [cs for cs, l in leaves if l == NONE]
        some_l = [(cs, l) for cs, l in leaves if l != NONE]
        none_ok = all(any(absent(c) or emptiness(c) is True for c in cs) for cs in none_l) and any(any(emptiness(c) is True for c in cs) for cs in none_l)
        some_ok = all(l[0] == "adt" and l[2] == "Some" and any(emptiness(c) is False for c in cs) for cs, l in some_l)
        chk.ob("VN", f, none_ok and some_ok and len(some_l) == 1, "%s is None for an empty window and Some otherwise" % what, f2.where(), key="empty-guard")
        if len(some_l) == 1 and some_l[0][1][0] == "adt" and some_l[0][1][2] == "Some":
            v = some_l[0][1][3][0][1]
            txt = show(canon_calls(v))
            lens = set()
            find_calls(v, "VecDeque::<T, A>::len", lens)
            uses_len = lens == {ln}
            sums = set()
            find_calls(v, "::sum", sums)
            uses_sum = len(sums) == 1 and summed_source(next(iter(sums))[2][0]) == tm
            divs = set()
            find_bins(v, "Div", divs)

            def uncast(x):
                while isinstance(x, tuple) and x and x[0] == "cast":
                    x = x[1]
                return x
            div = len(divs) == 1 and all(uncast(d[2]) in sums and uncast(d[3]) == ln for d in divs)
            chk.ob("VN", f, bool(uses_len and uses_sum and div), "%s = sum over the window / window length (%s)" % (what, txt[:160]), f2.where(), key="mean-form")
    # only the division by the window length is part of the property (the mean of a non-empty window); other arithmetic is not claimed total
    panics.check_no_panic(chk, prog, [TS + "get_average_timing", TS + "get_average_attempts"], "window arithmetic", kinds=["assert:DivisionByZero"])


def summed_source(t):
    """the collection whose elements (mapped one to one) are summed"""
    while isinstance(t, tuple) and t:
        if t[0] in ("imap", "seq") and len(t) >= 2 and not (t[0] == "seq" and t[2]):
            t = t[1]
        elif t[0] == "iop" and t[1] == "map":
            t = t[2]
        else:
            t2 = iter_source(t)
            if t2 == t:
                break
            t = t2
    return t


def find_calls(t, suffix, out):
    if isinstance(t, tuple) and t:
        if t[0] == "call" and isinstance(t[1], str) and t[1].endswith(suffix):
            out.add(t)
        for x in t:
            if isinstance(x, tuple):
                find_calls(x, suffix, out)


def find_bins(t, op, out):
    if isinstance(t, tuple) and t:
        if t[0] == "bin" and t[1] == op:
            out.add(t)
        for x in t:
            if isinstance(x, tuple):
                find_bins(x, op, out)


def find_op(t, op):
    if not isinstance(t, tuple):
        return False
    if t and t[0] == "bin" and t[1] == op:
        return True
    return any(find_op(x, op) for x in t if isinstance(x, tuple))
