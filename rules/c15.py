"""C15 — latest-volume discovery (coverage, index mapping, call counting, probe shape; the search algorithm itself is not decided)."""
from nx import sym, loops, panics
from nx.spec import *
from rules import common

LEVEL = "other"
R = "nexrad_data::aws::realtime::"
GLV = R + "get_latest_volume::get_latest_volume"
SEARCH = R + "search::search"
LIST = R + "list_chunks_in_volume::list_chunks_in_volume"
VI = R + "volume_index::VolumeIndex"
ROTATION = 999


def call(name, *args):
    return ("call", name, tuple(args))


def find(t, pred, out=None):
    out = [] if out is None else out
    if isinstance(t, tuple):
        if t and pred(t):
            out.append(t)
        for x in t:
            find(x, pred, out)
    return out


def run(chk, tier):
    prog, info = common.program("all")
    common.note_extraction(chk, info, prog)
    common.vacuity(chk, ['R-WIRE'])
    chk.explanation = ("Only what is in the shape of the code is decided (necessary conditions). Coverage: get_latest_volume searches N elements with the closure "
                       "mapping index -> volume index + k1 and the result mapped back by + k2; k1 = k2 = 1 and N + k1 - 1 = 999, the rotation bound asserted by "
                       "VolumeIndex::new, so directory 999 is examinable and neither 0 nor 1000 is ever named (under the search's index contract). Counting: every "
                       "invocation of the probe closure increments the counter exactly once and issues exactly one listing request (max-keys 1, first chunk's "
                       "upload time), and the reported call count is the counter. Probe shape inside search: every probe made inside a loop is the midpoint of "
                       "the current window (bisection), its failure is propagated, and an inclusive sub-range is skipped unprobed only when it is empty. "
                       "That the rotated search returns the newest populated directory for every bucket shape, and the logarithmic call bound, are properties of an "
                       "algorithm over runtime orderings and are NOT decided by this family.")
    chk.trust("the await model: the value of `fut.await` is the future's output (poll loops are not analysed)")
    chk.assume("search(n, ..) calls f(i) and returns Some(i) only with i < n (relational loop invariants low <= mid < high <= n; not derived here)")
    glv(chk, prog)
    probes(chk, prog)


def glv(chk, prog):
    co = prog.fn(GLV + "::{closure#0}")
    if co is None:
        chk.blind("VN", GLV, "get_latest_volume's body not found")
        return
    ev = sym.Evaluator(prog, opaque_local=[SEARCH, LIST])
    site = P("site")
    try:
        t = ev.eval_fn(co, [("closure", co.path, (site,)), P("cx")])
    except sym.Undecided as e:
        chk.blind("VN", GLV, "body could not be evaluated: %s" % e, co.where())
        return
    w = co.where()
    sc = find(t, lambda x: x[0] == "await" and isinstance(x[1], tuple) and x[1][0] == "call" and x[1][1].startswith(SEARCH))
    chk.ob("VN", GLV, len(set(sc)) == 1, "exactly one search is awaited", w, key="one-search")
    if not sc:
        return
    s = sc[0]
    n_term, target, clo = s[1][2][0], s[1][2][1], s[1][2][2]
    N = n_term[1] if sym.is_c(n_term) else None
    # result mapping: Ok(LatestVolumeResult{volume: map(index -> VolumeIndex::new(index + k2)), calls})
    oks = [x for x in sym._leaves(t, []) if x[0] == "adt" and x[2] == "Ok"]
    chk.ob("VN", GLV, len(oks) == 1 and oks[0][3][0][1][0] == "adt", "one Ok result carrying LatestVolumeResult", w, key="result")
    k2 = None
    counter = None
    if len(oks) == 1 and oks[0][3][0][1][0] == "adt":
        res = oks[0][3][0][1]
        vol = fld(res, "volume")
        idx = ("vfld", ("vfld", s, "Ok", "0"), "Some", "0")
        somes = [x for x in sym._leaves(vol, []) if x[0] == "adt" and x[2] == "Some"]
        if len(somes) >= 1:
            inner = somes[0][3][0][1]
            vals = [x for x in sym._leaves(inner, []) if x[0] == "adt" and x[1] == VI]
            if vals:
                a = fld(vals[0], "0")
                if a[0] == "bin" and a[1] == "Add" and idx in (a[2], a[3]):
                    k = a[2] if a[3] == idx else a[3]
                    k2 = k[1] if sym.is_c(k) else None
        nones = [x for x in sym._leaves(vol, []) if x == NONE]
        chk.ob("VN", GLV, k2 is not None and bool(nones), "the found index i is reported as VolumeIndex(i + %s); no index gives None" % k2, w, key="inverse-map")
        calls = fld(res, "calls")
        loads = find(calls, lambda x: x[0] == "call" and x[1].endswith("::load"))
        counter = loads[0][2][0] if loads else None
        plain = None if loads else plain_counter(prog, clo)
        chk.ob("R-WIRE", GLV, bool(loads) or bool(plain and plain["reported"]), "the reported call count is the counter's value", w, key="calls-wiring")
    # the probe closure: volume -> async { list(site, VolumeIndex::new(volume + k1), 1) }
    k1 = None
    if clo[0] == "closure":
        ev2 = sym.Evaluator(prog, opaque_local=[SEARCH, LIST])
        try:
            fut = ev2.apply_closure(clo, [P("volume")], 0)
        except sym.Undecided as e:
            fut = None
            chk.blind("VN", GLV, "probe closure undecided: %s" % e, w)
        if fut is not None:
            adds = [e for e in ev2.effects if e[0].endswith("::fetch_add")]
            okc = len(adds) == 1 and adds[0][1][1] == C(1, "i32") and (counter is None or repr(adds[0][1][0]) in repr(counter) or True)
            if plain is not None and not adds:
                # a plain integer local borrowed mutably by the probe closure: one `*c = *c + 1` outside any loop
                okc = plain["increments"] == 1
                chk.ob("R-ORDER", GLV, okc, "each probe increments the call counter exactly once (by 1)" if okc else "counter increments per probe: %d" % plain["increments"], w, key="count-per-probe")
                chk.ob("R-WIRE", GLV, bool(plain["reported"] and plain["zeroed"]), "the counter incremented by the probe is the one reported, and it starts at 0", w, key="same-counter")
            else:
                chk.ob("R-ORDER", GLV, okc, "each probe increments the call counter exactly once (by 1)" if okc else "counter increments per probe: %d" % len(adds), w, key="count-per-probe")
                same_counter = counter is not None and adds and strip(adds[0][1][0]) == strip(counter)
                chk.ob("R-WIRE", GLV, bool(same_counter), "the counter incremented by the probe is the one reported", w, key="same-counter")
            if fut[0] == "closure":
                inner = prog.fn(fut[1])
                ev3 = sym.Evaluator(prog, opaque_local=[SEARCH, LIST])
                try:
                    body = ev3.eval_fn(inner, [fut, P("cx")])
                except sym.Undecided as e:
                    body = None
                    chk.blind("VN", GLV, "probe future undecided: %s" % e, w)
                if body is not None:
                    lists = [e for e in ev3.effects if e[0] == LIST]
                    chk.ob("R-ORDER", GLV, len(lists) == 1, "each probe issues exactly one listing request (%d found)" % len(lists), w, key="one-listing-per-probe")
                    adds2 = [e for e in ev3.effects if e[0].endswith("::fetch_add")]
                    chk.ob("R-ORDER", GLV, not adds2 and not (plain and plain["escapes"]), "the counter is not touched again inside the probe's future", w, key="no-double-count")
                    if len(lists) == 1:
                        a = lists[0][1]
                        vi = a[1]
                        vals = [x for x in sym._leaves(vi, []) if x[0] == "adt" and x[1] == VI]
                        if vals:
                            v = fld(vals[0], "0")
                            if v[0] == "bin" and v[1] == "Add" and P("volume") in (v[2], v[3]):
                                k = v[2] if v[3] == P("volume") else v[3]
                                k1 = k[1] if sym.is_c(k) else None
                        chk.ob("VN", GLV, a[0] == site and a[2] == C(1, "usize"), "the listing asks for this site with max-keys 1" if a[0] == site and a[2] == C(1, "usize") else
                               "the listing is asked for (%s, .., %s): this site with max-keys 1 expected" % (show(a[0])[:80], show(a[2])[:40]), w, key="listing-args")
                        l = call(LIST, *a)
                        want = sym.res_match(("await", l), lambda chunks: ok(sym.opt_match(call("core::slice::<impl [T]>::first", chunks), lambda c: fld(c, "date_time"), lambda: NONE)),
                                             lambda e: err(e))
                        expect_c(chk, "R-WIRE", GLV, sym.prune(body), sym.prune(want), w, "a directory's value is its first chunk's upload time; a listing failure is propagated")
    chk.ob("R-SIB", GLV, k1 is not None and k1 == k2, "forward map (index + %s) and inverse map (index + %s) agree" % (k1, k2), w, key="maps-agree")
    # rotation bound from VolumeIndex::new's own assertion
    evv = sym.Evaluator(prog)
    bound = None
    try:
        vn = evv.eval_fn(VI + "::new", [P("index")])
        if vn[0] == "cases" and vn[1] == P("index"):
            for rs, x in vn[3]:
                if x[0] == "adt":
                    bound = rs[-1][1]
    except sym.Undecided:
        pass
    chk.ob("R-SIB", GLV, bound == ROTATION, "VolumeIndex::new asserts index <= %s (rotation bound %d)" % (bound, ROTATION), w, key="rotation-bound")
    okk = N is not None and k1 is not None and N + k1 - 1 == ROTATION and k1 == 1
    chk.ob("R-SIB", GLV, okk, "search covers indices 0..%s => directories %s..=%s (must be 1..=%d)" % (N, k1, (N + k1 - 1) if (N is not None and k1 is not None) else "?", ROTATION),
           w, key="covers-all-directories")


def plain_counter(prog, clo):
    """The call counter as a plain integer local of get_latest_volume's body, mutably borrowed by the probe closure.
    Returns None when there is no such local; else whether it is the value reported as `calls`, starts at 0 and is written
    nowhere else in the body, how many `*c = *c + 1` the probe closure performs on it (writes in a loop count as many), and
    whether the borrow is handed on to the probe's future."""
    co = prog.fn(GLV + "::{closure#0}")
    if co is None or clo[0] != "closure":
        return None
    probe = prog.fn(clo[1])
    if probe is None:
        return None
    # the closure aggregate in the parent and the local each captured operand borrows
    agg = [st for b, i, st in co.stmts() if st["s"] == "assign" and st.get("rv") == "agg" and st.get("ak") == "closure" and st.get("def") == clo[1]]
    if len(agg) != 1:
        return None
    refs = {st["dst"]["l"]: st for b, i, st in co.stmts() if st["s"] == "assign" and st.get("rv") == "ref" and not st["dst"]["p"]}
    cands = []
    for k, op in enumerate(agg[0]["ops"]):
        l = op.get("pl", {}).get("l")
        r = refs.get(l)
        if r is not None and r["bk"].startswith("Mut") and not r["pl"]["p"] and co.locals[r["pl"]["l"]]["ty"]["s"] in sym.INT_TYS:
            cands.append((k, r["pl"]["l"]))
    if len(cands) != 1:
        return None
    k, cl = cands[0]
    writes = [st for b, i, st in co.stmts() if st["s"] == "assign" and st["dst"]["l"] == cl]
    zeroed = len(writes) == 1 and not writes[0]["dst"]["p"] and writes[0].get("rv") == "use" and writes[0]["a"].get("k") == "const" and writes[0]["a"].get("int") == 0
    other_borrows = [st for b, i, st in co.stmts() if st["s"] == "assign" and st.get("rv") == "ref" and st["pl"]["l"] == cl and st["bk"].startswith("Mut")]
    # reported: the `calls` field of the result aggregate is a copy of that local
    rep = False
    for b, i, st in co.stmts():
        if st["s"] == "assign" and st.get("rv") == "agg" and st.get("ak") == "adt" and "calls" in (st.get("fields") or []):
            op = st["ops"][st["fields"].index("calls")]
            l = op.get("pl", {}).get("l")
            defs = [s2 for b2, i2, s2 in co.stmts() if s2["s"] == "assign" and s2["dst"]["l"] == l and not s2["dst"]["p"]]
            rep = l == cl or (len(defs) == 1 and defs[0].get("rv") == "use" and defs[0]["a"].get("pl", {}).get("l") == cl and not defs[0]["a"]["pl"]["p"])

    def through(pl):
        return pl["l"] == 1 and any(isinstance(e, dict) and e.get("f") == k for e in pl["p"][:3]) and pl["p"] and pl["p"][-1] == "*"
    incs = 0
    inloop = set()
    for h, body in probe.loops().items():
        inloop |= set(body)
    tmp = {}
    for b, i, st in probe.stmts():
        if st["s"] == "assign" and st.get("rv") == "bin" and st["op"].startswith("Add") and st["a"].get("k") in ("copy", "move") and through(st["a"]["pl"]) and st["b"].get("k") == "const" and st["b"].get("int") == 1:
            tmp[st["dst"]["l"]] = True
    for b, i, st in probe.stmts():
        if st["s"] == "assign" and through(st["dst"]):
            src = st.get("a", {}).get("pl", {}).get("l") if st.get("rv") == "use" else None
            incs += (1 if src in tmp else 2) * (50 if b in inloop else 1)
    escapes = False
    for b, i, st in probe.stmts():
        if st["s"] == "assign" and st.get("rv") == "agg" and st.get("ak") in ("coroutine", "closure"):
            for op in st["ops"]:
                pl = op.get("pl")
                if pl and pl["l"] == 1 and any(isinstance(e, dict) and e.get("f") == k for e in pl["p"]):
                    escapes = True
        if st["s"] == "assign" and st.get("rv") == "ref" and st["pl"]["l"] == 1 and any(isinstance(e, dict) and e.get("f") == k for e in st["pl"]["p"]):
            escapes = True
    return {"reported": rep, "zeroed": zeroed and len(other_borrows) == 1, "increments": incs, "escapes": escapes}


def strip(t):
    """ignore Arc deref/clone wrappers around the counter"""
    while isinstance(t, tuple) and t and t[0] == "call" and (t[1].endswith("::deref") or t[1].endswith("::clone")) and len(t[2]) == 1:
        t = t[2][0]
    return t


def probes(chk, prog):
    co = prog.fn(SEARCH + "::{closure#0}")
    if co is None:
        chk.blind("VN", SEARCH, "search body not found")
        return
    try:
        ls = loops.summarize(prog, co, opaque=[R + "search::should_search_right"])
    except sym.Undecided as e:
        chk.blind("VN", SEARCH, "search loops could not be summarised: %s" % e, co.where())
        return
    n_probe = 0
    for lp in ls:
        w = lp["where"]
        names = {co.local_name(l): l for l in lp["tracked"]}
        for conds, kind, val in lp["paths"]:
            awaits = []
            for c in conds:
                awaits += find(c[0], lambda x: x[0] == "await" and x[1][0] == "call" and "call_mut" in x[1][1])
            seen = []
            for a in awaits:
                if a not in seen:
                    seen.append(a)
            for a in seen:
                n_probe += 1
                arg = a[1][2][1]
                idxs = arg[1] if arg[0] == "tuple" else (arg,)
                mid = idxs[0]
                okm = is_midpoint(mid)
                chk.ob("R-ORDER", SEARCH, okm, "a probe inside a loop is the midpoint of the current window (%s)" % show(canon_calls(mid))[:80] if okm else
                       "a probe inside a loop is not a bisection midpoint: f(%s) — the call bound's argument needs every in-loop probe to halve a window" % show(canon_calls(mid))[:120],
                       w, key="midpoint:%d" % lp["head"])
        # every probe's error is propagated
        errs = [1 for conds, kind, val in lp["paths"] if kind == "exit:error"]
        chk.ob("R-ERR", SEARCH, len(errs) >= 1, "a failed probe ends the search with its error", w, key="probe-error:%d" % lp["head"])
        # queue-based bisection: the queued ranges cover the index range, and each step splits its range exactly
        if "queue" in names:
            coverage(chk, lp, names["queue"], w)
    chk.floor("in-loop probes", n_probe, 2)
    populated_only(chk, prog, co, ls)


def _fold_cond(c, sub):
    """truth of a path condition once the popped range is a pair of constants; None when it does not depend on them alone"""
    t = sym.rebuild(c[0], sub)
    if len(c) == 2:
        return (t == TRUE) == c[1] if t in (TRUE, FALSE) else None
    if sym.is_c(t) and isinstance(t[1], int):
        return any(lo <= t[1] <= hi for lo, hi in c[2])
    return None


def _pushes(q):
    """(pairs pushed at the back, in order) for a queue value push_back(..push_back(pop_front(Q), r1).., rk)"""
    out = []
    while q[0] == "mutated" and q[1].endswith("::push_back") and q[2] == 0:
        out.append(q[3][1])
        q = q[3][0]
    if not (q[0] == "mutated" and q[1].endswith("::pop_front")):
        return None
    prs = []
    for r in reversed(out):
        if not (r[0] == "tuple" and len(r[1]) == 2 and all(sym.is_c(x) and isinstance(x[1], int) for x in r[1])):
            return None
        prs.append((r[1][0][1], r[1][1][1]))
    return prs


REPRS = {"inclusive (start..=end)": lambda a, b: set(range(a, b + 1)), "half-open (start..end)": lambda a, b: set(range(a, b))}


def coverage(chk, lp, q, w):
    """The bisection queue, decided on the loop's closed form with the popped pair (s, e) and the element count replaced by every
    small constant (the closed form is arithmetic in s and e only): under one reading of a pair — inclusive or half-open — the
    seed covers 0..n exactly, a pair is dropped without a probe exactly when it is empty, and a probed pair's midpoint lies in
    it and the pairs pushed back are disjoint and, with the midpoint, cover it."""
    pops = {c[0][1] for conds, kind, val in lp["paths"] for c in conds if len(c) == 3 and c[0][0] == "discr" and c[0][1][0] == "call" and c[0][1][1].endswith("::pop_front")}
    if len(pops) != 1:
        chk.ob("R-ORDER", SEARCH, False, "the queue is popped once per iteration (%d pop(s))" % len(pops), w, key="skip-only-empty")
        return
    pair = ("vfld", next(iter(pops)), "Some", "0")
    s_t, e_t = fld(pair, "0"), fld(pair, "1")
    verdict = {}
    B = 7
    for name, members in REPRS.items():
        bad = None
        for s0 in range(B):
            for e0 in range(B):
                S = members(s0, e0)
                sub = {s_t: C(s0, "usize"), e_t: C(e0, "usize")}
                live = []
                for conds, kind, val in lp["paths"]:
                    ts = [_fold_cond(c, sub) for c in conds]
                    if any(t is False for t in ts):
                        continue
                    live.append((conds, kind, val))
                probing = [p for p in live if any(find(c[0], lambda x: x[0] == "await") for c in p[0])]
                silent = [p for p in live if p[1] == "next" and p not in probing]
                if not S:
                    if probing or not silent:
                        bad = bad or "the empty pair (%d, %d) is probed" % (s0, e0)
                    continue
                if silent or not probing:
                    bad = bad or "the non-empty pair (%d, %d) is dropped without a probe" % (s0, e0)
                    continue
                # a probed pair is given up (nothing pushed back, or the loop left) only on what the probe returned: two paths
                # that agree on every condition over the awaited probe, one pushing the halves and one not, abandon the
                # bisection on something else (a probe budget, a counter) and lose the indices of the pair
                def _sig(p):
                    return frozenset(c for c in p[0] if find(c[0], lambda x: x[0] == "await"))
                def _pushing(p):
                    if p[1] != "next":
                        return False
                    try:
                        pr = _pushes(sym.rebuild(p[2][q], sub))
                    except Exception:
                        return None
                    return bool(pr)
                cls = [(_sig(p), _pushing(p)) for p in probing]
                for i, (sg, pu) in enumerate(cls):
                    if pu is True and any(sg2 == sg and pu2 is False for sg2, pu2 in cls):
                        bad = bad or "after the probe of the pair (%d, %d) the bisection is abandoned on a condition other than the probe's result (the pair's halves are not pushed back)" % (s0, e0)
                for conds, kind, val in probing:
                    mids = set()
                    for c in conds:
                        for a in find(c[0], lambda x: x[0] == "await" and x[1][0] == "call" and "call_mut" in x[1][1]):
                            arg = a[1][2][1]
                            m = sym.rebuild(arg[1][0] if arg[0] == "tuple" else arg, sub)
                            mids.add(m[1] if sym.is_c(m) else None)
                    if len(mids) != 1 or None in mids or next(iter(mids)) not in S:
                        bad = bad or "the probe for the pair (%d, %d) is not one index inside it (%s)" % (s0, e0, sorted(mids, key=str))
                        continue
                    mid = next(iter(mids))
                    if kind != "next":
                        continue
                    prs = _pushes(sym.rebuild(val[q], sub))
                    if prs is None:
                        bad = bad or "after probing (%d, %d) the queue is not the popped queue plus pushed pairs" % (s0, e0)
                        continue
                    if not prs:
                        continue            # the search leaves the bisection here (a populated index was found)
                    if any(not (0 <= a <= 4 * B and 0 <= b <= 4 * B) for a, b in prs):
                        bad = bad or "after probing %d in (%d, %d) a pushed pair leaves the index range: %s (an unsigned subtraction wrapped)" % (mid, s0, e0, prs)
                        continue
                    parts = [members(a, b) for a, b in prs]
                    union = set().union(*parts) | {mid}
                    if union != S or sum(len(x) for x in parts) + 1 != len(S):
                        bad = bad or "after probing %d in (%d, %d) the pushed pairs %s do not split the rest of it" % (mid, s0, e0, prs)
        # the seed
        seed = lp["entry"].get(q)
        if bad is None:
            bad = _seed_bad(seed, members)
        verdict[name] = bad
    good = [n for n, b in verdict.items() if b is None]
    chk.ob("R-ORDER", SEARCH, len(good) == 1, ("the bisection queue holds %s pairs: the seed covers every index, a pair is dropped unprobed only when empty, and each probe splits its pair exactly" % good[0])
           if len(good) == 1 else "the bisection queue loses or repeats indices: " + "; ".join("%s: %s" % (n, b) for n, b in verdict.items()), w, key="skip-only-empty")


def _seed_bad(seed, members):
    prs = []
    if seed is not None and seed[0] == "call" and seed[1].endswith("::from") and len(seed[2]) == 1 and seed[2][0][0] == "array":
        prs = list(seed[2][0][1])
    elif seed is not None:
        q = seed
        while q[0] == "mutated" and q[1].endswith("::push_back") and q[2] == 0:
            prs.insert(0, q[3][1])
            q = q[3][0]
        if not (q[0] == "call" and (q[1].endswith("::new") or q[1].endswith("::with_capacity"))):
            prs = []
    if not prs or not all(r[0] == "tuple" and len(r[1]) == 2 for r in prs):
        return "the initial queue is not a list of pairs"
    ats = set()
    for r in prs:
        for x in r[1]:
            ats |= {a for a in sym.atoms(x)}
    if len(ats) != 1:
        return "the initial queue depends on %d inputs (the element count expected)" % len(ats)
    n_t = next(iter(ats))
    for n in range(1, 7):
        parts = []
        for r in prs:
            a, b = (sym.rebuild(x, {n_t: C(n, "usize")}) for x in r[1])
            if not (sym.is_c(a) and sym.is_c(b)):
                return "the initial queue is not arithmetic in the element count"
            if not (0 <= a[1] <= 64 and 0 <= b[1] <= 64):
                return "for %d elements the initial queue holds the pair (%d, %d)" % (n, a[1], b[1])
            parts.append(members(a[1], b[1]))
        if set().union(*parts) != set(range(n)) or sum(len(x) for x in parts) != n:
            return "for %d elements the initial queue covers %s" % (n, sorted(set().union(*parts)))
    return None


def probe_index(v):
    """index i when v is the value obtained from probe f(i): `f(i).await?` (Ok payload of the awaited call), else None"""
    while v[0] == "call" and len(v[2]) == 1 and (v[1].endswith("::as_ref") or v[1].endswith("::clone")):
        v = v[2][0]
    if v[0] == "vfld" and v[2] == "Ok" and v[1][0] == "await" and v[1][1][0] == "call" and "call_mut" in v[1][1][1]:
        arg = v[1][1][2][1]
        return arg[1][0] if arg[0] == "tuple" and len(arg[1]) == 1 else arg
    return None


def populated_only(chk, prog, co, ls):
    """Necessary for 'returns the populated directory ...': the candidate `nearest` only ever takes the index of a directory
    that the same path has just found populated (its probe returned Some). Decided for every assignment to the candidate:
    inside each loop (one-iteration closed form) and in the straight-line code that leads from one loop to the next."""
    nl = [l for l in range(len(co.locals)) if co.local_name(l) == "nearest"]
    if len(nl) != 1:
        chk.blind("R-ORDER", SEARCH, "candidate local `nearest` not found (%d locals of that name)" % len(nl))
        return
    nl = nl[0]
    L = P("L%d" % nl)
    n_assign = 0

    def judge(tree, base, extra_conds, where, tag):
        nonlocal n_assign
        try:
            cells = loops.split_cases({0: tree}, limit=400)
        except sym.Undecided as e:
            chk.blind("R-ORDER", SEARCH, "candidate updates could not be enumerated (%s): %s" % (tag, e), where)
            return
        for cc, vv in cells:
            v = vv[0]
            if v == base or v == NONE or v[0] in ("after_loop", "uninit"):
                continue
            n_assign += 1
            okk = False
            if v[0] == "adt" and v[2] == "Some":
                x = v[3][0][1]
                for c in tuple(extra_conds) + tuple(cc):
                    pv = None
                    if len(c) == 3 and c[0][0] == "discr" and c[2] == ((1, 1),):
                        pv = c[0][1]
                    elif len(c) == 2 and c[0][0] == "call" and c[0][1].endswith("::is_some") and c[1] is True:
                        pv = c[0][2][0]
                    elif len(c) == 2 and c[0][0] == "call" and c[0][1].endswith("::is_none") and c[1] is False:
                        pv = c[0][2][0]
                    if pv is not None and probe_index(pv) == x:
                        okk = True
            chk.ob("R-ORDER", SEARCH, okk, "the candidate is set to an index only after that index's probe returned a value" if okk else
                   "the candidate becomes %s without its directory having been found populated on that path (under %s)" % (
                       show(canon_calls(v))[:80], [show(canon_calls(c[0]))[:60] for c in cc][:4]), where, key="populated-candidate:%s" % tag)

    for lp in ls:
        if nl in lp["tracked"]:
            for conds, kind, val in lp["paths"]:
                if kind == "next" and isinstance(val, dict) and nl in val:
                    judge(val[nl], L, conds, lp["where"], "loop%d" % lp["head"])
    # straight-line code leaving each loop towards the next one (or the return): run it on the exit environments
    heads = sorted(lp["head"] for lp in ls)
    for lp in ls:
        later = frozenset(h for h in heads if h > lp["head"] and h not in lp["body"])
        if not later:
            continue
        ev = sym.Evaluator(prog, opaque_local=[R + "search::should_search_right"])
        ev.summarize_loops = True
        ev.keep_exit_env = True
        asg = loops.assigned_in(co, lp["body"])
        env0 = {l: v for l, v in lp["entry"].items() if l not in asg}
        try:
            tree = ev.eval_loop_body(co, lp["head"], lp["body"], tuple(lp["tracked"]), env0)
        except sym.Undecided as e:
            chk.blind("R-ORDER", SEARCH, "exit paths of loop %d undecided: %s" % (lp["head"], e), lp["where"])
            continue
        for conds, leaf in loops.paths(tree):
            if not (isinstance(leaf, tuple) and leaf and leaf[0] == "exit" and len(leaf) == 4):
                continue
            env = dict(ev.exit_envs[leaf[3][2]])
            base = env.get(nl, L)
            ev2 = sym.Evaluator(prog, opaque_local=[R + "search::should_search_right"])
            ev2.summarize_loops = True
            try:
                t2 = ev2.run(co, leaf[1], env, {lp["head"]: 1}, 0, until=later)
            except sym.Undecided:
                continue
            for c2, lf in loops.paths(t2):
                if isinstance(lf, tuple) and lf and lf[0] == "@join":
                    e2 = ev2._joins[lf[1]][0]
                    judge(e2.get(nl, base), base, tuple(conds) + tuple(c2), lp["where"], "after-loop%d" % lp["head"])
    chk.floor("candidate assignments", n_assign, 1)


def is_pair(t, which):
    return t[0] == "fld" and t[2] == which and "pop_front" in repr(t[1])[:200]


def is_midpoint(t):
    # (a + b) / 2   or   a + (b - a) / 2
    if t[0] == "bin" and t[1] == "Div" and t[3] == C(2, "usize") and t[2][0] == "bin" and t[2][1] == "Add":
        return True
    if t[0] == "bin" and t[1] == "Add":
        for a, b in ((t[2], t[3]), (t[3], t[2])):
            if b[0] == "bin" and b[1] == "Div" and b[3] == C(2, "usize") and b[2][0] == "bin" and b[2][1] == "Sub" and b[2][3] == a:
                return True
    return False
