"""C03 — message streams are framed correctly."""
from nx import sym, layout, loops
from nx.spec import *
from rules import common, c02

LEVEL = "other"
M = "nexrad_decode::messages::"
MH = M + "message_header::MessageHeader"
DM, DC, DH = M + "decode_messages", M + "decode_message_contents", M + "decode_message_header"
T31 = M + "digital_radar_data::decode_digital_radar_data"
STATUS = M + "rda_status_data::decode_rda_status_message"
VCP = M + "volume_coverage_pattern::decode_volume_coverage_pattern"
MT = M + "message_type::MessageType"
MC = M + "message::MessageContents"
FRAME = 2432


def okv(x):
    return ("vfld", x, "Ok", "0")


def call(name, *args):
    return ("call", name, tuple(args))


def framing(chk, prog):
    """the stream-level obligations (also carried by C01: a message the stream loop drops or misframes is a radial lost)"""
    layout.check_struct(chk, prog, MH)
    ev = sym.Evaluator(prog, opaque_local=[T31, STATUS, VCP])
    reader, mt = P("reader"), P("message_type")
    got, fn = eval_or_blind(chk, ev, "VN", DC, [reader, mt])
    if got is not None:
        hdr_size = prog.adts[MH]["size"] if MH in prog.adts else None
        buf = ("repeat", C(0, "u8"), FRAME - 28)
        rd = call("std::io::Read::read_exact", reader, buf)
        filled = ("mutated", "std::io::Read::read_exact", 1, (reader, buf))
        n = {"t31": 0, "frame": 0}
        kinds = {}
        for conds, leaf in loops.paths(got):
            is31 = None
            code31 = {v["name"]: int(v["discr"]) for v in prog.adts[MT]["variants"] if not v["fields"]}.get("RDADigitalRadarDataGenericFormat") if MT in prog.adts else None
            if conds and len(conds[0]) == 3 and conds[0][0] == ("discr", mt) and code31 is not None:
                rs = conds[0][2]
                if rs == ((code31, code31),):
                    is31 = True
                elif not any(lo <= code31 <= hi for lo, hi in rs):
                    is31 = False
            if is31 is None:
                chk.ob("R-TABLE", DC, False, "a path does not start with the test for message type 31", fn.where(), key="t31-test")
                continue
            if is31:
                n["t31"] += 1
                d = call(T31, reader)
                okk = (leaf == ok(adt(MC, "DigitalRadarData", (("0", okv(d)),)))) or (leaf[0] == "adt" and leaf[2] == "Err")
                chk.ob("R-ORDER", DC, okk and not any(c[0] == ("discr", rd) for c in conds if len(c) == 3), "type 31 is decoded from the stream itself, without a fixed frame read", fn.where(), key="t31#%d" % n["t31"])
                continue
            n["frame"] += 1
            first_disc = [c for c in conds[1:] if len(c) == 3]
            okk = bool(first_disc) and first_disc[0][0] == ("discr", rd)
            chk.ob("R-ORDER", DC, okk, "for every other type the %d-byte frame body is read before anything else" % (FRAME - 28), fn.where(), key="frame-first#%d" % n["frame"])
            if not okk:
                continue
            if first_disc[0][2] != ((0, 0),):
                chk.ob("R-ERR", DC, leaf[0] == "adt" and leaf[2] == "Err", "a short frame is an error", fn.where(), key="short-frame")
                continue
            sel = [c for c in first_disc[1:] if c[0] == ("discr", mt)]
            if not sel and conds[0][0] == ("discr", mt):
                sel = [conds[0]]
            code = sel[0][2] if sel else None
            dec = [c[0][1] for c in first_disc[1:] if c[0][0] == "discr" and c[0][1][0] == "call"]
            if leaf[0] == "adt" and leaf[2] == "Ok":
                v = leaf[3][0][1]
                kinds[v[2]] = (code, dec[0] if dec else None)
            elif not (leaf[0] == "adt" and leaf[2] == "Err"):
                chk.ob("R-ERR", DC, False, "unexpected result %s" % show(leaf)[:120], fn.where(), key="result-kind")
        mtd = {v["name"]: int(v["discr"]) for v in prog.adts[MT]["variants"] if not v["fields"]} if MT in prog.adts else {}
        want = {"RDAStatusData": (((mtd.get("RDAStatusData"),) * 2,), call(STATUS, filled)),
                "VolumeCoveragePattern": (((mtd.get("RDAVolumeCoveragePattern"),) * 2,), call(VCP, filled))}
        for k, (code, dec) in want.items():
            g = kinds.get(k)
            chk.ob("R-TABLE", DC, g == (code, dec), "%s is produced exactly for its type code by its decoder running on the frame buffer (not the stream)" % k if g == (code, dec) else
                   "%s: found %s" % (k, show(g[1])[:160] if g and g[1] else g), fn.where(), key="dispatch:%s" % k)
        g = kinds.get("Other")
        okk = g is not None and g[1] is None and g[0] is not None and not any(lo <= c <= hi for lo, hi in g[0] for c in (mtd.get("RDAStatusData"), mtd.get("RDAVolumeCoveragePattern")))
        chk.ob("R-TABLE", DC, okk, "every type without a dedicated decoder occupies one frame and surfaces as the opaque placeholder", fn.where(), key="dispatch:Other")
        chk.ob("R-TABLE", DC, set(kinds) <= {"RDAStatusData", "VolumeCoveragePattern", "Other"}, "no other contents kinds are produced from fixed frames (%s)" % sorted(kinds), fn.where(), key="dispatch:extra")
        chk.ob("R-LAYOUT", DC, hdr_size == 28, "frame body length %d = %d - size_of::<MessageHeader>() (%s)" % (FRAME - 28, FRAME, hdr_size), fn.where(), key="frame-length")
        chk.floor("contents paths", n["t31"] + n["frame"], 6)

    # ---- decode_messages
    fn = prog.fn(DM)
    if fn is None:
        chk.blind("VN", DM, "decode_messages not found")
        return
    try:
        ls = loops.summarize(prog, fn, opaque=[DC, DH])
    except sym.Undecided as e:
        chk.blind("VN", DM, "message loop could not be summarised: %s" % e, fn.where())
        return
    chk.ob("VN", DM, len(ls) == 1, "%d loop(s) (one expected)" % len(ls), fn.where(), key="one-loop")
    if len(ls) == 1:
        lp = ls[0]
        w = lp["where"]
        common.pre_loop_returns(chk, "R-ERR", DM, prog, fn, lp["head"], opaque=[DC, DH], what="the message loop")
        rdr = P(fn.local_name(1) or "reader")
        h = call(DH, rdr)
        names = {fn.local_name(l): l for l in lp["tracked"]}
        lm = names.get("messages")
        if lm is None:
            chk.blind("VN", DM, "loop state is not the messages vector: %s" % sorted(names), w)
            return
        L = P("L%d" % lm)
        ev2 = sym.Evaluator(prog)
        ty = ev2.eval_fn(MH + "::message_type", [okv(h)])
        body = call(DC, rdr, ty)
        nn = 0
        for conds, kind, val in lp["paths"]:
            if kind == "exit:normal":
                okk = len(conds) == 1 and conds[0][0] == ("discr", h) and not any(lo <= 0 <= hi for lo, hi in conds[0][2])
                chk.ob("R-ERR", DM, okk, "the loop ends normally exactly when no further header can be read (trailing fragment ignored)", w, key="exit-on-header-failure")
            elif kind == "exit:error":
                okk = any(len(c) == 3 and c[0][0] == "discr" and c[0][1][0] == "call" and c[0][1][1] == DC for c in conds)
                chk.ob("R-ERR", DM, okk, "a failure inside a message body is propagated as an error", w, key="body-error")
            elif kind == "next":
                for c2, v in loops.split_cases(val):
                    nn += 1
                    mv = v[lm]
                    okk = mv[0] == "mutated" and mv[1].endswith("::push") and mv[3][0] == L
                    if okk:
                        m = mv[3][1]
                        okk = m[0] == "adt" and fld(m, "header") == okv(h) and fld(m, "contents")[0] == "vfld" and fld(m, "contents")[1][0] == "call" and fld(m, "contents")[1][1] == DC \
                            and fld(m, "contents")[1][2][0] == rdr
                    chk.ob("R-LIN", DM, okk, "exactly one Message(header, contents decoded for it) is appended per iteration", w, key="push")
                tyarg = [c[0][1][2][1] for c in conds if len(c) == 3 and c[0][0] == "discr" and c[0][1][0] == "call" and c[0][1][1] == DC]
                chk.ob("R-WIRE", DM, tyarg == [ty], "the contents are decoded for the type named by this message's own header", w, key="type-of-header")
            else:
                chk.ob("R-ERR", DM, False, "the loop can be left in an unexpected way (%s)" % kind, w, key="exit:" + kind)
        try:
            ret = loops.exit_value(prog, fn, lp, opaque=[DC, DH])
            expect(chk, "R-WIRE", DM, ret, ok(L), fn.where(), "returns all decoded messages")
        except sym.Undecided as e:
            chk.blind("VN", DM, "result undecided: %s" % e, w)
    # ---- decode_message_header is the 28-byte struct read
    t, f3 = eval_or_blind(chk, sym.Evaluator(prog, opaque_local=["nexrad_decode::util::deserialize"]), "VN", DH, [P("reader")])
    if t is not None:
        chk.ob("R-WIRE", DH, t[0] == "call" and t[1].startswith("nexrad_decode::util::deserialize::<") and MH in t[1], "a header is read as one MessageHeader struct", f3.where(), key="header-read")
    # ---- type 31 leaves the reader after its last block
    f31 = prog.fn(T31)
    if f31 is not None:
        c02.gate_buffer(chk, prog)
        # a radial whose blocks are not all recognised makes the whole stream an error: the block dispatch (every ICD name
        # reaches its arm, compared on the id's own bytes) is a framing obligation too, not only the reader's end position
        c02.loop_checks(chk, prog, f31, P(f31.local_name(1) or "reader"))


def run(chk, tier):
    prog, info = common.program("all")
    common.note_extraction(chk, info, prog)
    common.vacuity(chk, ['R-TABLE'])
    chk.explanation = ("Framing is decided from value-numbered summaries: MessageHeader's wire size (28 = size_of, R-LAYOUT) fixes the frame body at 2432 - 28 bytes; "
                       "decode_message_contents either hands type 31 to the stream decoder or reads exactly one frame body *before* any dispatch and gives the "
                       "status/VCP decoders the frame buffer, never the stream, with every other type yielding the opaque placeholder; decode_messages leaves its "
                       "loop normally only when a header can no longer be read, propagates every body error, and pushes exactly one Message(header, contents of "
                       "that header's type) per iteration in order; the type-31 decoder performs no seek after its last block read.")
    chk.trust("Read::read_exact consumes exactly the buffer length or fails; bincode reads exactly the struct's wire size")
    framing(chk, prog)
