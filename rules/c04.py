"""C04 — message decoding is total: no reachable panic, every loop terminates, allocations bounded."""
from nx import panics, term
from rules import common

LEVEL = "proof"
D = "nexrad_decode::messages::"
ENTRIES = [
    D + "decode_messages", D + "decode_message_header", D + "decode_message_contents",
    D + "digital_radar_data::decode_digital_radar_data", D + "rda_status_data::decode_rda_status_message",
    D + "volume_coverage_pattern::decode_volume_coverage_pattern", D + "clutter_filter_map::decode_clutter_filter_map",
    D + "digital_radar_data::message::Message::radial", D + "digital_radar_data::message::Message::into_radial",
]


def run(chk, tier):
    prog, info = common.program("all")
    common.note_extraction(chk, info, prog)
    common.vacuity(chk, ['R-PANIC'])
    chk.explanation = ("R-PANIC: every Assert terminator (overflow, bounds, division), every call into the panic family, every unwrap/expect and every "
                       "partial library function reachable from the decode entry points (including the derived serde visitors and the Debug/Display "
                       "impls formatted on error paths) is an obligation, discharged by interval analysis over value-numbered terms; an unclassified "
                       "external callee fails closed. R-TERM: every natural loop in that scope must belong to a terminating class. R-ALLOC: every "
                       "allocation size has a constant upper bound, a loop or adaptor closure that runs as often as a number says (Range::next, counter loops) allocates only if the same iteration reads input, and the scope's call graph is acyclic (bounded stack).")
    chk.trust("library tables rules/tables/lib.py: panic family, partial functions with preconditions, total functions (confirmed against rust-src / registry sources)")
    chk.trust("Seek axiom: Seek::stream_position()/seek() return positions <= i64::MAX (file offsets and slice lengths), so start + zext(u32) cannot overflow u64")
    chk.trust("bincode 1.3 decodes structs as fixed-length tuples (visit_seq only); the derived visit_map / field-identifier visitors are unreachable through it")
    chk.trust("Read::read_exact on a finite source eventually fails; bincode deserialize_from of fixed-size structs allocates nothing")
    fns, edges = panics.check_no_panic(chk, prog, ENTRIES, "decode")
    cyc = panics.find_cycle(edges)
    chk.ob("R-ALLOC", "call-graph", cyc is None, "call graph of the decode scope is acyclic (bounded stack depth)" if cyc is None else "recursion: %s" % (cyc,), key="acyclic")
    term.check_loops(chk, prog, fns, "decode")
    panics.check_unpaid_growth(chk, prog, fns, edges, "decode")
    from nx import interval
    nseek = term.check_seek_discipline(chk, prog, fns, interval.Engine(prog))
    chk.floor("seek sites", nseek, 2)
    if tier == "thorough":
        from nx import clippyx
        clippyx.cross_check(chk, prog, fns, "decode")
    chk.floor("functions in scope", len(fns), 60)
