"""C13 — clutter filter map decodes to the encoded segment/azimuth/zone structure."""
from nx import sym, layout, loops
from nx.spec import *
from rules import common

LEVEL = "other"
M = "nexrad_decode::messages::clutter_filter_map::"
FN = M + "decode_clutter_filter_map"
DES = "nexrad_decode::util::deserialize::<%s>"


def okval(call):
    return ("vfld", call, "Ok", "0")


def run(chk, tier):
    prog, info = common.program("all")
    common.note_extraction(chk, info, prog)
    common.vacuity(chk, ['R-TABLE'])
    chk.explanation = ("R-LAYOUT on the three wire structs; the decoder's loop nest is summarised by value numbering (environment at each loop "
                       "entry + closed form of one iteration, inner loops havocked): bounds 0..trunc8(segment count), 0..360, 0..zext(zone count); "
                       "the only way round each loop is the success path of its decode steps, pushing exactly one element built from this "
                       "iteration's data into the parent container after its children; every failure leaves through an error return; "
                       "segment and azimuth numbers are the loop indices; R-TABLE on op_code.")
    chk.trust("serde_derive/bincode as in C02; Vec::push appends at the end")
    chk.assume("elevation segment counts above 255 are outside the property (the code truncates the 16-bit count to u8: identity on 0..=255)")
    for s in ("header::Header", "azimuth_segment::AzimuthSegmentHeader", "range_zone::RangeZone"):
        layout.check_struct(chk, prog, M + s)
    fn = prog.fn(FN)
    if fn is None:
        chk.blind("VN", FN, "decoder not found")
        return
    try:
        ls = loops.summarize(prog, fn)
    except sym.Undecided as e:
        chk.blind("VN", FN, "loop nest could not be summarised: %s" % e, fn.where())
        return
    nest = [l["depth"] for l in ls]
    # the zones of one azimuth segment are read by a third nested loop, or by a collected iterator chain over 0..count
    zone_seqs = set()
    if nest == [0, 1]:
        for conds, kind, val in ls[1]["paths"]:
            if kind == "next":
                for v in val.values():
                    find_seqs(v, zone_seqs)
    chk.floor("loops in decoder", len(ls) + len(zone_seqs), 3)
    okn = nest == [0, 1, 2] or (nest == [0, 1] and len(zone_seqs) == 1)
    chk.ob("VN", FN, okn, "loop nest has depths %s%s (expected three nested loops, the innermost possibly a collected iterator chain)" % (
        nest, " and %d iterator chain(s)" % len(zone_seqs) if zone_seqs else ""), fn.where(), key="nest")
    if not okn:
        return
    outer, mid = ls[0], ls[1]
    inner = ls[2] if len(ls) == 3 else None
    zs = next(iter(zone_seqs)) if inner is None else None
    reader = P(fn.local_name(1) or "arg1")
    hdr = ("call", DES % (M + "header::Header"), (reader,))
    az = ("call", DES % (M + "azimuth_segment::AzimuthSegmentHeader"), (reader,))
    rz = ("call", DES % (M + "range_zone::RangeZone"), (reader,))
    # ---- bounds
    sw = loops.strip_widen
    for name, lp in (("outer", outer), ("azimuth", mid)) + ((("zones", inner),) if inner else ()):
        chk.ob("VN", FN + "#" + name, loops.const_value(lp["start"]) == 0, "loop starts at %s (must start at 0)" % show(lp["start"]), lp["where"], key="start")
    expect(chk, "VN", FN + "#outer", sw(outer["N"]), cast(fld(okval(hdr), "elevation_segment_count"), "u16", "u8"), outer["where"], "outer loop bound")
    chk.ob("VN", FN + "#azimuth", loops.const_value(mid["N"]) == 360, "azimuth loop bound is %s (must be 360)" % show(mid["N"]), mid["where"], key="bound")
    # ---- before the outer loop: the only early returns are the header's own failure and, possibly, the empty map for a count of 0
    try:
        pre = [(c_, l_) for c_, l_ in loops.paths(loops.entry_env(prog, fn, outer["head"])[1]) if isinstance(l_, tuple) and l_ and l_[0] != "@join"]
    except sym.Undecided as e:
        pre = None
        chk.blind("VN", FN, "code before the segment loop could not be evaluated: %s" % e, fn.where())
    if pre is not None:
        nterm = sw(outer["N"])
        bad = []
        for c_, l_ in pre:
            if any(len(k) == 3 and k[0] == ("discr", hdr) and k[2] == ((1, 1),) for k in c_):
                if not (l_[0] == "adt" and l_[2] == "Err"):
                    bad.append("the header's failure returns %s" % show(l_)[:60])
                continue
            rest = [k for k in c_ if not (len(k) == 3 and k[0] == ("discr", hdr))]
            empty_ok = l_[0] == "adt" and l_[2] == "Ok" and l_[3][0][1][0] == "adt" and listalg_empty(fld(l_[3][0][1], "elevation_segments"))

            def holds(k, n):
                t_ = sym.rebuild(k[0], {nterm: C(n, "u8")})
                if len(k) == 2:
                    return (t_ == TRUE) == k[1] if t_ in (TRUE, FALSE) else None
                if sym.is_c(t_) and isinstance(t_[1], int):
                    return any(lo <= t_[1] <= hi for lo, hi in k[2])
                return None
            open_for = [n for n in range(0, 256) if all(holds(k, n) is not False for k in rest)]
            if not (empty_ok and rest and open_for == [0]):
                bad.append("returns %s before reading any segment for segment counts %s" % (show(l_)[:60], open_for[:4] + (["…"] if len(open_for) > 4 else [])))
        chk.ob("R-ERR", FN, not bad, "before the segment loop the decoder returns only on the header's failure (or the empty map for a count of 0)" if not bad else "; ".join(bad)[:300],
               fn.where(), key="pre-loop-returns")
    # ---- iteration shapes
    for name, lp in (("outer", outer), ("azimuth", mid)) + ((("zones", inner),) if inner else ()):
        shape(chk, fn, name, lp)
    # ---- what is pushed where
    if inner is not None:
        expect(chk, "VN", FN + "#zones", sw(inner["N"]), fld(okval(az), "range_zone_count"), inner["where"], "zone loop bound")
        pushed(chk, fn, "zones", inner, "range_zones", lambda x, lp: x == okval(rz), "the zone decoded in this iteration")
    else:
        chk.trust("Iterator::collect::<Result<Vec<_>, E>>() yields the elements' Ok payloads in order, or the first Err (core docs)")
        rng = zs[1]
        isr = rng[0] == "adt" and rng[1] == "core::ops::range::Range"
        chk.ob("VN", FN + "#zones", isr and loops.const_value(fld(rng, "start")) == 0, "the zone chain starts at %s (must start at 0)" % (show(fld(rng, "start")) if isr else show(rng)[:80]),
               mid["where"], key="start")
        if isr:
            expect(chk, "VN", FN + "#zones", sw(fld(rng, "end")), fld(okval(az), "range_zone_count"), mid["where"], "zone loop bound")
        chk.ob("R-LIN", FN + "#zones", zs[2] == () and zs[3] == rz, "exactly one push into `range_zones` per iteration, of the zone decoded in this iteration (chain element: %s%s)" % (
            show(zs[3])[:120], "" if zs[2] == () else ", adapters: %s" % (zs[2],)), mid["where"], key="push:range_zones")
        fails = [p for p in mid["paths"] if p[1] == "exit:error" and any(len(c) == 3 and c[0] == ("discr", zs) and c[2] == ((1, 1),) for c in p[0])]
        chk.ob("R-ERR", FN + "#zones", len(fails) >= 1, "%d error exit(s): a failed decode step returns Err" % len(fails), mid["where"], key="error-exits")
        nx = [p for p in mid["paths"] if p[1] == "next"]
        chk.ob("R-ERR", FN + "#zones", all(any(len(c) == 3 and c[0] == ("discr", zs) and c[2] == ((0, 0),) for c in p[0]) for p in nx),
               "the way round the azimuth loop requires the success of the whole zone chain", mid["where"], key="next-conditions")

    def az_ok(x, lp):
        # AzimuthSegment after its zone loop; before that loop it was AzimuthSegment::new(this iteration's header, loop index)
        if inner is None:
            from nx import listalg
            rzv = fld(x, "range_zones") if x[0] in ("adt", "upd") else None
            zones_ok = rzv is not None and (rzv == okval(zs) or listalg.seq(rzv) == [("atom", okval(zs))])      # stored, or extended into the empty vector
            return zones_ok and fld(x, "header") == okval(az) and fld(x, "azimuth_segment") == lp["I"]
        if x[0] != "after_loop":
            return False
        pre = x[3]
        return pre[0] == "adt" and fld(pre, "header") == okval(az) and fld(pre, "azimuth_segment") == lp["I"]
    pushed(chk, fn, "azimuth", mid, "azimuth_segments", az_ok, "the azimuth segment built from this iteration's header, numbered by the loop index, after its zones were read")

    def el_ok(x, lp):
        if x[0] != "after_loop":
            return False
        pre = x[3]
        return pre[0] == "adt" and fld(pre, "elevation_segment_number") == lp["I"]
    pushed(chk, fn, "outer", outer, "elevation_segments", el_ok, "the elevation segment numbered by the loop index, after its 360 azimuth segments were read")

    # ---- op codes
    ev = sym.Evaluator(prog)
    got, f2 = eval_or_blind(chk, ev, "VN", M + "range_zone::RangeZone::op_code")
    if got is not None:
        OC = M + "definitions::OpCode"
        for code, name in ((0, "BypassFilter"), (1, "BypassMapInControl"), (2, "ForceFilter")):
            v = common.at_point(got, F("op_code"), C(code, "u16"))
            expect(chk, "R-TABLE", M + "range_zone::RangeZone::op_code", v, unit_variant(OC, name), f2.where(), "op code %d" % code)
    # the generation date-time: the same obligation C08 puts on this accessor (closed form and no panic)
    from rules import c08
    from nx import chrono_model as cm
    chk.floor("generation date-time accessor", c08.accessor(chk, prog, cm.evaluator(prog), M + "header::Header::date_time", no_panic=True), 1)


def listalg_empty(v):
    from nx import listalg
    try:
        return listalg.seq(v) == []
    except Exception:
        return False


def find_seqs(t, out):
    if isinstance(t, tuple) and t:
        if t[0] == "seq":
            out.add(t)
            return
        for x in (t if isinstance(t[0], tuple) else t[1:]):
            if isinstance(x, tuple):
                find_seqs(x, out)


def shape(chk, fn, name, lp):
    anchor = FN + "#" + name
    nexts = [p for p in lp["paths"] if p[1] == "next"]
    chk.ob("VN", anchor, len(nexts) == 1, "%d way(s) round the loop (exactly one expected)" % len(nexts), lp["where"], key="one-next")
    for conds, kind, val in lp["paths"]:
        cd = lp.get("countdown")
        if kind == "next" and cd is not None:
            # counted without an index: `remaining` runs from N down to 0
            L, ty = P("L%d" % cd), fn.local_ty(cd)
            good = conds and conds[0] == (L, ty, ((1, sym.ty_range(ty)[1]),)) and all(loops.is_success_cond(c) for c in conds[1:])
            chk.ob("R-ERR", anchor, bool(good), "the way round the loop requires I < N and the success of every decode step / inner loop on it (%d conditions)" % len(conds),
                   lp["where"], key="next-conditions")
            expect(chk, "VN", anchor, val.get(cd), binop("Sub", L, C(1, ty), ty), lp["where"], "index advances by one")
        elif kind == "exit:normal" and cd is not None:
            good = len(conds) == 1 and conds[0] == (P("L%d" % cd), fn.local_ty(cd), ((0, 0),))
            chk.ob("VN", anchor, good, "the loop is left normally only when the index reaches the bound", lp["where"], key="normal-exit")
        elif kind == "next":
            good = conds and loops.cont_cond(conds[0], lp["I"], lp["N"]) and all(loops.is_success_cond(c) for c in conds[1:])
            chk.ob("R-ERR", anchor, bool(good), "the way round the loop requires I < N and the success of every decode step / inner loop on it (%d conditions)" % len(conds),
                   lp["where"], key="next-conditions")
            it = val.get(lp["iter"])
            ty = lp["N"][2] if sym.is_c(lp["N"]) else (lp["start"][2] if sym.is_c(lp["start"]) else "usize")
            want = sym.adt("core::ops::range::Range", "Range", (("start", binop("Add", lp["I"], C(1, ty), ty)), ("end", lp["N"])))
            expect(chk, "VN", anchor, it, want, lp["where"], "index advances by one")
        elif kind == "exit:normal":
            good = len(conds) == 1 and not loops.cont_cond(conds[0], lp["I"], lp["N"])
            chk.ob("VN", anchor, good, "the loop is left normally only when the index reaches the bound", lp["where"], key="normal-exit")
        elif kind == "exit:error":
            pass
        else:
            # arms of the partition that no real outcome selects (the selector's unused range) are ignored only when they
            # duplicate an error exit; anything else is reported
            sel = conds[-1] if conds else None
            spurious = sel is not None and len(sel) == 3 and sel[0][0] == "loopexit" and all(lo < 0 or lo > 64 for lo, hi in sel[2])
            chk.ob("R-ERR", anchor, False if not spurious else True, "path leaves the loop in an unrecognised way (%s at bb%s)" % (kind, val if not isinstance(val, dict) else ""),
                   lp["where"], key="exit-kind:%s" % kind)
    errs = [p for p in lp["paths"] if p[1] == "exit:error"]
    chk.ob("R-ERR", anchor, len(errs) >= 1 or name == "outer-none", "%d error exit(s): a failed decode step returns Err" % len(errs), lp["where"], key="error-exits")


def pushed(chk, fn, name, lp, field, pred, what):
    anchor = FN + "#" + name
    for conds, kind, val in lp["paths"]:
        if kind != "next":
            continue
        found = []
        for l, v in val.items():
            found += find_pushes(v, field)
        okk = len(found) == 1 and pred(found[0][1], lp)
        chk.ob("R-LIN", anchor, okk, "exactly one push into `%s` per iteration, of %s (found %d push(es)%s)" % (
            field, what, len(found), "" if okk or not found else ": " + show(found[0][1])[:200]), lp["where"], key="push:%s" % field)


def find_pushes(v, field, path=()):
    """pushes recorded in a value: ('mutated', '...::push', 0, (old, x)) possibly nested inside struct updates under `field`"""
    out = []
    if not isinstance(v, tuple) or not v:
        return out
    if v[0] == "mutated" and v[1].endswith("::push"):
        old, x = v[3][0], v[3][1]
        if not path or path[-1] == field:
            out.append((old, x))
        out += find_pushes(old, field, path)
        return out
    if v[0] == "upd":
        out += find_pushes(v[3], field, path + (v[2],))
        out += find_pushes(v[1], field, path)
        return out
    if v[0] == "adt":
        for n, x in v[3]:
            out += find_pushes(x, field, path + (n,))
        return out
    if v[0] == "after_loop":
        return out
    return out
