"""C02 — type-31 radial messages decode field-exactly from the ICD layout."""
from nx import sym, layout, loops, term, interval
from nx.spec import *
from rules import common

LEVEL = "other"
D = "nexrad_decode::messages::digital_radar_data::"
FN = D + "decode_digital_radar_data"
GNEW = D + "generic_data_block::GenericDataBlock::new"
DES = "nexrad_decode::util::deserialize::<%s>"
STRUCTS = ["header::Header", "data_block_id::DataBlockId", "volume_data_block::VolumeDataBlock", "elevation_data_block::ElevationDataBlock",
           "radial_data_block::RadialDataBlock", "generic_data_block::GenericDataBlockHeader"]
# three-character name -> (Message field, deserialized struct or None for a generic moment block)
DISPATCH = {
    "VOL": ("volume_data_block", D + "volume_data_block::VolumeDataBlock"), "ELV": ("elevation_data_block", D + "elevation_data_block::ElevationDataBlock"),
    "RAD": ("radial_data_block", D + "radial_data_block::RadialDataBlock"),
    "REF": ("reflectivity_data_block", None), "VEL": ("velocity_data_block", None), "SW ": ("spectrum_width_data_block", None),
    "ZDR": ("differential_reflectivity_data_block", None), "PHI": ("differential_phase_data_block", None),
    "RHO": ("correlation_coefficient_data_block", None), "CFP": ("specific_diff_phase_data_block", None),
}
OPT_FIELDS = [v[0] for v in DISPATCH.values()]


def okv(x):
    return ("vfld", x, "Ok", "0")


def call(name, *args):
    return ("call", name, tuple(args))


def run(chk, tier):
    prog, info = common.program("all")
    common.note_extraction(chk, info, prog)
    common.vacuity(chk, ['R-TABLE', 'R-WIRE'])
    chk.explanation = ("R-LAYOUT on the six wire structs of ICD tables XVII-A/B/E/F/H and both deserialize helpers' fixint/big-endian option chain. The decoder's "
                       "loop is summarised by value numbering: the pointer table is count x 4 bytes read right after the header, each pointer a big-endian "
                       "u32; every iteration seeks to (position at function entry) + zext(pointer), reads the 4-byte block id, rewinds by exactly its wire size, "
                       "and dispatches on the three-character name: the name -> (Message field, struct type) table is compared with the ICD names; generic blocks "
                       "read their header then exactly gates x (word_size / 8) bytes into the buffer that is stored; absent blocks stay None; any failure or "
                       "unknown name is an error return.")
    chk.trust("serde_derive emits fields in declaration order; bincode 1.3 fixint/big-endian (no padding, no length prefix for fixed arrays); Read::read_exact fills the whole buffer or fails")
    for s in STRUCTS:
        layout.check_struct(chk, prog, D + s)
    layout.check_option_chain(chk, prog, "nexrad_decode::util::deserialize")
    fn = prog.fn(FN)
    if fn is None:
        chk.blind("VN", FN, "decoder not found")
        return
    reader = P(fn.local_name(1) or "reader")
    gate_buffer(chk, prog)
    loop_checks(chk, prog, fn, reader)


def gate_buffer(chk, prog):
    # ---- gate buffer size
    ev = sym.Evaluator(prog)
    got, f2 = eval_or_blind(chk, ev, "VN", GNEW, [P("header")])
    if got is not None:
        h = P("header")
        size = binop("Mul", cast(fld(h, "number_of_data_moment_gates"), "u16", "usize"), binop("Div", cast(fld(h, "data_word_size"), "u8", "usize"), C(8, "usize"), "usize"), "usize")
        okk = got[0] == "adt" and fld(got, "header") == h
        enc = fld(got, "encoded_data") if got[0] == "adt" else ("?",)
        okk = okk and enc[0] == "call" and enc[1] == "alloc::vec::from_elem" and enc[2][0] == C(0, "u8") and sym.norm_arith(strip_ovf(enc[2][1])) == sym.norm_arith(size)
        chk.ob("VN", GNEW, okk, "gate buffer = vec![0; gates x (word_size / 8)] and the header is stored unchanged" if okk else
               "gate buffer is %s, expected zeroed gates x (word_size/8) bytes" % show(enc)[:300], f2.where(), key="buffer-size")


def loop_checks(chk, prog, fn, reader, only_tail=False):
    # ---- loop summary
    try:
        ls = loops.summarize(prog, fn, opaque=[GNEW])
    except sym.Undecided as e:
        chk.blind("VN", FN, "block loop could not be summarised: %s" % e, fn.where())
        return
    # the block loop is the loop that reads a DataBlockId; loops that only prepare the pointer list come before it and are
    # judged through the value they produce (the iterator's source below)
    bid_name = DES % (D + "data_block_id::DataBlockId")
    cand = [l for l in ls if any(sym._mentions(c[0], ("call", bid_name, (reader,))) for conds, _k, _v in l["paths"] for c in conds)]
    chk.ob("VN", FN, len(cand) == 1, "%d loop(s) in the decoder read a block id (one expected; %d loops in all)" % (len(cand), len(ls)), fn.where(), key="one-loop")
    if len(cand) != 1:
        return
    lp = cand[0]
    w = lp["where"]
    from rules import common as _common
    _hdr = okv(call(DES % (D + "header::Header"), reader))
    _common.pre_loop_returns(chk, "R-ERR", FN, prog, fn, lp["head"], opaque=[GNEW], what="the block loop", zero_of=fld(_hdr, "data_block_count"),
                             empty_ok=lambda l_: l_[0] == "adt" and l_[2] == "Ok" and l_[3][0][1][0] == "adt" and fld(l_[3][0][1], "header") == _hdr
                             and all(fld(l_[3][0][1], f) == NONE for f in OPT_FIELDS))
    names = {fn.local_name(l): l for l in lp["tracked"]}
    if "message" not in names or "iter" not in names:
        chk.blind("VN", FN, "loop state is not (message, iterator): %s" % sorted(names), w)
        return
    lm, li = names["message"], names["iter"]
    hdr = okv(call(DES % (D + "header::Header"), reader))
    # entry: message fresh, all blocks absent; pointer table
    m0 = lp["entry"][lm]
    okk = m0[0] == "adt" and fld(m0, "header") == hdr and all(fld(m0, f) == NONE for f in OPT_FIELDS)
    chk.ob("R-TABLE", FN, okk, "the message starts with the decoded header and all ten blocks absent", w, key="init-absent")
    it0 = lp["entry"][li]
    raw = ("mutated", "std::io::Read::read_exact", 1, (reader, call("alloc::vec::from_elem", C(0, "u8"), binop("Mul", cast(fld(hdr, "data_block_count"), "u16", "usize"), C(4, "usize"), "usize"))))
    body_ok = False
    tbl_ok = False
    src, per = pointer_list(it0)
    inline = False
    if src is None:
        x = iter_source(it0)
        if isinstance(x, tuple) and x and x[0] == "chunks":
            # the block loop walks the 4-byte chunks itself and folds each into its pointer inside the iteration: the
            # endianness obligation is then part of the locate step (the seek offset is the big-endian u32 of this chunk)
            src, inline = x, True
    if src is not None:
        tbl_ok = src[0] == "chunks" and src[2] == C(4, "usize") and sym.sem_eq(strip_ovf_deep(src[1]), raw)
        body_ok = per is not None and per[0] == "be" and per[2] == "u32" and sym.norm_arith(per[1]) in (sym.ELEM, ("vfld", ("call", "core::convert::TryInto::try_into", (sym.ELEM,)), "Ok", "0")) \
            or (per is not None and per[0] == "be" and per[2] == "u32" and set(a for a in sym.atoms(per[1]) if a[0] == "p") == {sym.ELEM})
    chk.ob("VN", FN, tbl_ok, "the pointer table is data_block_count x 4 bytes read immediately after the header, split into 4-byte chunks in order", w, key="pointer-table")
    if not inline:
        chk.ob("VN", FN, body_ok, "each pointer is the big-endian u32 of its chunk", w, key="pointer-endianness")
    # iterations
    L = P("L%d" % lm)
    I = P("L%d" % li)
    nxt = ("call", "<alloc::vec::into_iter::IntoIter<T, A> as core::iter::traits::iterator::Iterator>::next", (I,))
    ptr = ("vfld", nxt, "Some", "0")
    if inline:
        nx_ = [c[0][1] for conds, kind, val in lp["paths"] if kind == "next" for c in conds[:1]
               if len(c) == 3 and c[0][0] == "discr" and c[0][1][0] == "call" and c[0][1][1].endswith("::next") and c[0][1][2] == (I,)]
        if nx_:
            nxt = nx_[0]
        chunk = ("vfld", nxt, "Some", "0")
        ptr = ("be", ("array", tuple(("idx", chunk, C(i, "usize")) for i in range(4))), "u32")
    locate_ok = []
    rejects = []
    bid = call(DES % (D + "data_block_id::DataBlockId"), reader)
    name = None
    byte_form = False
    found = {}
    n_next = 0
    for conds, kind, val in lp["paths"]:
        if kind == "exit:normal":
            chk.ob("VN", FN, len(conds) == 1, "the loop ends only when the pointers are exhausted", w, key="exit-when-exhausted")
            continue
        if kind != "next":
            if kind != "exit:error":
                chk.ob("R-ERR", FN, False, "the block loop can be left in an unexpected way (%s)" % kind, w, key="exit:" + kind)
            else:
                # a well-formed block is never refused: an iteration fails only because one of its stream steps failed, or
                # because the block's name is none of the ICD's (a path that tests nothing but the name)
                failing = [c for c in conds if len(c) == 3 and c[0][0] == "discr" and c[2] == ((1, 1),) and c[0][1][0] == "call"
                           and not c[0][1][1].endswith("::next") and sym._mentions(c[0][1], reader)]
                if not failing:
                    rejects.append(([c for c in conds if _name_test(c, bid)], [c for c in conds if not (len(c) == 3 and c[0][0] == "discr") and not _name_test(c, bid)]))
            continue
        n_next += 1
        # ordered prefix: next -> seek(Start(entry + zext(pointer))) -> read id -> seek(Current(-size(id)))
        steps = [c[0][1] for c in conds if len(c) == 3 and c[0][0] == "discr" and c[2] == ((0, 0),)]
        okp = len(steps) >= 3
        if okp:
            s0, s1, s2 = steps[0], steps[1], steps[2]
            want_seek = call("std::io::Seek::seek", reader, adt("std::io::SeekFrom", "Start", (("0", binop("Add", okv(call("std::io::Seek::stream_position", reader)), cast(ptr, "u32", "u64"), "u64")),)))
            okp = (strip_ovf_deep(s0) == want_seek or sym.sem_eq(strip_ovf_deep(s0), want_seek)) and s1 == bid and s2 == call("std::io::Seek::seek", reader, adt("std::io::SeekFrom", "Current", (("0", C(-4, "i64")),)))
        locate_ok.append(bool(okp))
        if only_tail:
            last = steps[-1] if steps else ("?",)
            okl = last[0] == "call" and (last[1].startswith("nexrad_decode::util::deserialize::<") or last[1] == "std::io::Read::read_exact")
            chk.ob("R-ORDER", FN, okl, "the last stream operation of an iteration is the block's own read (no seek after it), so the reader ends after the last block in pointer order",
                   w, key="tail#%d" % n_next)
            continue
        chk.ob("R-ORDER", FN, okp, "each block is located by an absolute seek to entry position + zext(pointer), its 4-byte id is read and the reader rewound by 4",
               w, key="locate#%d" % n_next)
        lits = [(c[0], c[1]) for c in conds if len(c) == 2 and c[0][0] == "bin" and c[0][1] == "Eq" and sym.is_c(c[0][2]) and isinstance(c[0][2][1], str)]
        true_lits = [c[2][1] for c, tr in lits if tr]
        for c, tr in lits:
            name = c[3] if name is None else name
        if not lits:
            # the name may be matched byte by byte (`match &id.data_name { b"VOL" => .. }`): three pinned bytes are that literal
            dn = fld(okv(bid), "data_name")
            sets = {}
            for c in conds:
                if len(c) == 3 and c[0][0] == "idx" and c[0][1] == dn and sym.is_c(c[0][2]):
                    i = c[0][2][1]
                    sets[i] = sym.rs_inter(sets.get(i, ((0, 255),)), c[2])
            if set(sets) == {0, 1, 2} and all(len(rs) == 1 and rs[0][0] == rs[0][1] for rs in sets.values()):
                true_lits = [bytes(sets[i][0][0] for i in range(3)).decode("latin1")]
                byte_form = True
        # the block's name alone decides where it is delivered: besides the outcomes of the stream steps, an iteration's path may
        # only test the name (as text or byte by byte)
        dn_ = fld(okv(bid), "data_name")
        other = []
        for c in conds:
            if len(c) == 3 and c[0][0] == "discr":
                continue
            if len(c) == 3 and c[0][0] == "idx" and c[0][1] == dn_:
                continue
            if len(c) == 2 and c[0][0] == "bin" and c[0][1] in ("Eq", "Ne") and any(sym._mentions(x, dn_) for x in c[0][2:4]) and not any(
                    sym._mentions(x, fld(okv(bid), "data_block_type")) for x in c[0][2:4]):
                continue
            if sym._mentions(c[0], okv(bid)) or sym._mentions(c[0], bid):
                other.append(show(c[0])[:80])
        chk.ob("R-TABLE", FN, not other, "the delivery of a block depends on its name only" if not other else
               "the delivery of a block also depends on: %s" % "; ".join(sorted(set(other)))[:240], w, key="name-only#%d" % n_next)
        upd_field, stored = None, None
        mv = val[lm]
        if mv[0] == "upd" and mv[1] == L:
            upd_field, stored = mv[2], mv[3]
        if len(true_lits) == 1 and upd_field:
            lit = true_lits[0]
            ty = "<a payload that is neither deserialize::<T>(reader) nor a generic block's header + buffer read: %s>" % show(stored)[:160]
            if stored[0] == "adt" and stored[2] == "Some":
                pay = stored[3][0][1]
                if pay[0] == "vfld" and pay[1][0] == "call" and pay[1][1].startswith("nexrad_decode::util::deserialize::<"):
                    ty = pay[1][1].split("::<")[1][:-1]
                elif pay[0] == "upd" and pay[2] == "encoded_data":
                    gh = okv(call(DES % (D + "generic_data_block::GenericDataBlockHeader"), reader))
                    filled = pay[3]
                    g_ok = pay[1] == call(GNEW, gh) and filled[0] == "mutated" and filled[1] == "std::io::Read::read_exact" and filled[2] == 1 \
                        and filled[3] == (reader, fld(call(GNEW, gh), "encoded_data")) and any(s == call("std::io::Read::read_exact", reader, fld(call(GNEW, gh), "encoded_data")) for s in steps)
                    ty = None if g_ok else "<generic block not read as header + exactly its buffer>"
            found[lit] = (upd_field, ty)
        else:
            chk.ob("R-TABLE", FN, False, "an iteration stores a block without exactly one name match (names %s, field %s)" % (true_lits, upd_field), w, key="dispatch-shape#%d" % n_next)
        it = val[li]
        chk.ob("R-LIN", FN, it[0] == "mutated" and it[3][0] == I, "one pointer consumed per iteration", w, key="advance")
    # rejections that no failed step explains: grouped by what they test of the name, the other conditions on them must
    # cover every case (then the rejection does not depend on them: it is the unknown-name rejection met on several paths)
    import itertools as _it
    groups = {}
    for nm, ex in rejects:
        groups.setdefault(tuple(sorted(map(repr, nm))), []).append(ex)
    for n_rej, (_k, exs) in enumerate(sorted(groups.items()), 1):
        terms = sorted({c[0] for ex in exs for c in ex}, key=repr)
        dep = []
        if any(len(c) != 2 for ex in exs for c in ex) or len(terms) > 6:
            dep = [show(t)[:90] for t in terms]
        else:
            for asg in _it.product((True, False), repeat=len(terms)):
                a = dict(zip(terms, asg))
                if not any(all(a[c[0]] == c[1] for c in ex) for ex in exs):
                    dep = [show(t)[:90] for t in terms]
                    break
        chk.ob("R-ERR", FN, not dep, "a block is refused without a failed stream step only for an unknown name" if not dep else
               "a block whose reads all succeed is refused depending on: %s" % "; ".join(dep)[:300], w, key="reject-only-unknown-name#%d" % n_rej)
    if inline and not only_tail:
        chk.ob("VN", FN, bool(locate_ok) and all(locate_ok), "each pointer is the big-endian u32 of its chunk", w, key="pointer-endianness")
    # after the last block nothing else touches the reader: the message ends where its last block ends
    try:
        ret = loops.exit_value(prog, fn, lp, opaque=[GNEW])
        touched = [e[0] for e in lp.get("exit_effects", []) if any(sym._mentions(a, reader) or a == reader for a in e[1])]
        chk.ob("R-ORDER", FN, not touched and ret == ok(L), "after the last block the reader is left alone and the assembled message is returned" if (not touched and ret == ok(L)) else
               "after the block loop the decoder still uses the reader (%s) or returns %s" % (", ".join(x.split("::")[-1] for x in touched) or "-", show(ret)[:120]), w, key="nothing-after-last-block")
    except sym.Undecided as e:
        chk.blind("R-ORDER", FN, "code after the block loop undecided: %s" % e, w)
    if only_tail:
        chk.floor("type-31 iteration shapes", n_next, 10)
        return
    want_name = call("alloc::string::String::from_utf8_lossy", fld(okv(bid), "data_name"))
    if name is None and byte_form:
        chk.ob("R-WIRE", FN, True, "the dispatch compares the block id's own three name bytes", w, key="name-source")
    if name is not None:
        okn = name[0] == "call" and name[2] and name[2][0][0] == "call" and name[2][0][1].endswith("from_utf8_lossy") and name[2][0][2] == (fld(okv(bid), "data_name"),)
        if not okn:
            # the id's three name bytes as text, by whichever route: strict UTF-8 when it succeeds, lossy otherwise (both are
            # the bytes themselves for the ASCII names compared against)
            dn_t = fld(okv(bid), "data_name")

            def as_text(x):
                while x[0] == "call" and len(x[2]) == 1 and x[1].rsplit("::", 1)[-1] in ("to_string", "to_owned", "into_owned", "as_str", "deref", "as_ref", "from", "into"):
                    x = x[2][0]
                if x[0] == "call" and x[1].endswith("from_utf8_lossy") and x[2] == (dn_t,):
                    return True
                if x[0] == "vfld" and x[2] == "Ok" and x[1][0] == "call" and x[1][1].endswith("from_utf8") and x[1][2] == (dn_t,):
                    return True
                return False
            lv = [x for x in sym._leaves(name, []) if x != ("unreachable",)]
            okn = bool(lv) and all(isinstance(x, tuple) and as_text(x) for x in lv)
        chk.ob("R-WIRE", FN, okn, "the dispatch compares the block id's own three name bytes", w, key="name-source")
    for lit, (field, ty) in sorted(DISPATCH.items()):
        g = found.get(lit)
        chk.ob("R-TABLE", FN, g == (field, ty), "block \"%s\" -> Message.%s%s" % (lit, field, " as " + ty.split("::")[-1] if ty else " (generic moment block)") if g == (field, ty) else
               "block \"%s\" is delivered as %s, ICD says Message.%s %s" % (lit, g, field, ty or "(generic moment block)"), w, key="dispatch:%s" % lit)
    extra = set(found) - set(DISPATCH)
    chk.ob("R-TABLE", FN, not extra, "no block name outside the ICD's ten is accepted (%s)" % sorted(extra), w, key="dispatch:extra")
    chk.floor("dispatch arms", len(found), 10)
    # position base taken before anything is read; rewind constant = DataBlockId wire size
    term.check_seek_discipline(chk, prog, [FN], interval.Engine(prog))


def _name_test(c, bid):
    """condition c tests the block id's three name bytes and nothing else of the id"""
    dn_ = fld(okv(bid), "data_name")
    if len(c) == 3 and c[0][0] == "idx" and c[0][1] == dn_:
        return True
    if len(c) == 2 and c[0][0] == "bin" and c[0][1] in ("Eq", "Ne") and any(sym._mentions(x, dn_) for x in c[0][2:4]) and not any(
            sym._mentions(x, fld(okv(bid), "data_block_type")) for x in c[0][2:4]):
        return True
    return False


def pointer_list(it0):
    """(source, per-element value) of the list of pointers the block loop iterates: a collected `chunks(4).map(..)` chain
    (the elements' Ok payloads) or a vector filled by a push loop (comprehension form)"""
    x = it0
    while x[0] == "call" and x[1].endswith("into_iter") and len(x[2]) == 1:
        x = x[2][0]
    if x[0] == "vfld" and x[2] == "Ok" and x[1][0] == "seq" and x[1][2] == ():
        sq = x[1]
        per = [y for y in sym._leaves(sq[3], []) if y[0] == "adt" and y[2] == "Ok"]
        src = sq[1]
        return src, (per[0][3][0][1] if len(per) == 1 else None)
    c = sym.comp_of(x)
    if c is not None:
        g = c[2]
        src = c[1]
        while src[0] == "iter":
            src = src[1]
        return src, (g[3][0][1] if g[0] == "adt" and g[2] == "Some" else None)
    return None, None


def strip_ovf(t):
    return t


def strip_ovf_deep(t):
    return t
