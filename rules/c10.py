"""C10 — message header: layout, type mapping, size semantics."""
from nx import sym, layout
from nx.spec import *
from rules import common
from rules.tables import codes

LEVEL = "other"
MH = "nexrad_decode::messages::message_header::MessageHeader"
MT = "nexrad_decode::messages::message_type::MessageType"
RC = "nexrad_decode::messages::definitions::RedundantChannel"
UOM_BYTE = "uom::si::information::byte"


def type_table(chk, prog, ev):
    """MessageHeader::message_type against the frozen ICD table, and the enum's discriminants (carried by C14: its groups are
    keyed by this accessor's value)."""
    mtype = F("message_type")
    # ---- message_type: frozen ICD table + derived oracle (literal == repr(u8) discriminant)
    got, fn = eval_or_blind(chk, ev, "VN", MH + "::message_type")
    if got is not None:
        want = table(mtype, "u8", [(c, unit_variant(MT, n)) for c, n in sorted(codes.MESSAGE_TYPE.items())],
                     adt(MT, "Unknown", (("0", mtype),)))
        expect(chk, "R-TABLE", MH + "::message_type", got, want, fn.where(), "type-code table")
        adt_mt = prog.adts.get(MT)
        if adt_mt is None:
            chk.blind("R-TABLE", MT, "MessageType enum not found")
        else:
            discr = {v["name"]: int(v["discr"]) for v in adt_mt["variants"] if not v["fields"]}
            n = 0
            for c, name in codes.MESSAGE_TYPE.items():
                n += 1
                chk.ob("R-TABLE", MT, discr.get(name) == c, "variant %s has discriminant %s, its wire code is %d" % (name, discr.get(name), c),
                       "%s:%s" % (adt_mt["loc"]["file"], adt_mt["loc"]["line"]), key="discr:%s" % name)
            extra = set(discr) - set(codes.MESSAGE_TYPE.values())
            chk.ob("R-TABLE", MT, not extra, "unit variants without a wire code in the table: %s" % sorted(extra), key="extra-variants")
            chk.floor("message-type codes", n, 29)


def run(chk, tier):
    prog, info = common.program("all")
    common.note_extraction(chk, info, prog)
    common.vacuity(chk, ['R-TABLE', 'VN-bits', 'R-PANIC'])
    chk.explanation = ("R-LAYOUT on MessageHeader (ICD table II rows, repr(C) size 28 = wire size); value numbering of every accessor "
                       "into a canonical piecewise term over the header fields, compared with the specified closed form (type table, "
                       "channel codes, segmented <=> size != 0xFFFF, size rule, agreement of the plain and unit-typed size accessors); "
                       "no reachable panic in the accessors the property names.")
    chk.trust("serde_derive emits fields in declaration order; bincode 1.3 fixint/big-endian encodes each primitive at its width without padding")
    chk.trust("uom Quantity::new::<byte> is a tagged multiplication by the unit's constant factor (modelled as an opaque tag over its argument)")
    layout.check_struct(chk, prog, MH)
    layout.check_option_chain(chk, prog, "nexrad_decode::util::deserialize")

    ev = sym.Evaluator(prog)
    size, count, number, mtype, chan = F("segment_size"), F("segment_count"), F("segment_number"), F("message_type"), F("redundant_channel")
    seg = mk_in(size, "u16", ((0, 65534),))          # segmented <=> size != 0xFFFF

    type_table(chk, prog, ev)

    # ---- redundant channel: the six defined codes (other codes are outside the property)
    got, fn = eval_or_blind(chk, ev, "VN", MH + "::rda_redundant_channel")
    if got is not None:
        for c, name in codes.REDUNDANT_CHANNEL.items():
            v = common.at_point(got, chan, C(c, "u8"))
            expect(chk, "R-TABLE", MH + "::rda_redundant_channel", v, unit_variant(RC, name), fn.where(), "channel code %d" % c)

    # ---- segmented / segment accessors
    got, fn = eval_or_blind(chk, ev, "VN", MH + "::segmented")
    if got is not None:
        expect(chk, "VN", MH + "::segmented", got, seg, fn.where(), "segmented")
    for acc, field in (("segment_count", count), ("segment_number", number)):
        got, fn = eval_or_blind(chk, ev, "VN", MH + "::" + acc)
        if got is not None:
            expect(chk, "VN", MH + "::" + acc, got, ite(seg, some(field), NONE), fn.where(), acc)

    # ---- size rule
    u32 = lambda x: cast(x, "u16", "u32")
    seg_bytes = binop("Mul", u32(size), C(2, "u32"), "u32")
    var_bytes = binop("BitOr", binop("Shl", u32(count), C(16, "i32"), "u32"), u32(number), "u32")
    bytes_spec = ite(seg, seg_bytes, var_bytes)
    got_b, fn = eval_or_blind(chk, ev, "VN", MH + "::message_size_bytes")
    if got_b is not None:
        got_b = canon_size(got_b)
        expect(chk, "VN", MH + "::message_size_bytes", got_b, canon_size(bytes_spec), fn.where(), "size rule")
    got_m, fn = eval_or_blind(chk, ev, "VN", MH + "::message_size")
    if got_m is not None:
        inner = strip_uom(chk, got_m, MH + "::message_size", fn)
        if inner is not None:
            want = sym.map_leaves(canon_size(bytes_spec), lambda x: cast(x, "u32", "f64"))
            expect(chk, "VN", MH + "::message_size", canon_size(inner), want, fn.where(), "unit-typed size rule")
            if got_b is not None:
                expect(chk, "R-SIB", MH + "::message_size~message_size_bytes", canon_size(inner),
                       sym.map_leaves(got_b, lambda x: cast(x, "u32", "f64")), fn.where(), "plain and unit-typed size accessors agree")
    got_s, fn = eval_or_blind(chk, ev, "VN", MH + "::segment_size")
    if got_s is not None:
        def leaf(x):
            if x == NONE:
                return x
            if x[0] == "adt" and x[2] == "Some":
                i = strip_uom(chk, x[3][0][1], MH + "::segment_size", fn)
                return some(canon_size(i)) if i is not None else x
            return x
        want = ite(seg, some(cast(canon_size(seg_bytes), "u32", "f64")), NONE)
        expect(chk, "VN", MH + "::segment_size", sym.map_leaves(got_s, leaf), want, fn.where(), "segment size")

    # ---- every accessor returns for every size value: no assert can fail, no panic call reachable
    from nx import panics
    accs = ["segment_size", "message_type", "date_time", "segmented", "segment_count", "segment_number", "message_size_bytes", "message_size"]
    panics.check_no_panic(chk, prog, [MH + "::" + a for a in accs], "C10 accessors")

    # the header reaches these accessors only through decode_message_header: it must be one read of the whole 28-byte struct
    # (the obligation C03 states for framing)
    DH = "nexrad_decode::messages::decode_message_header"
    t, f3 = eval_or_blind(chk, sym.Evaluator(prog, opaque_local=["nexrad_decode::util::deserialize"]), "VN", DH, [P("reader")])
    if t is not None:
        chk.ob("R-WIRE", DH, t[0] == "call" and t[1].startswith("nexrad_decode::util::deserialize::<") and MH in t[1], "a header is read as one MessageHeader struct", f3.where(), key="header-read")


def canon_size(t):
    """x << 1 and x * 2 denote the same value when no bit is lost; normalise `Shl(x,1)` to `Mul(x,2)` only for
    u32 operands that are zero-extended u16 (cannot overflow)"""
    def f(x):
        if isinstance(x, tuple) and x and x[0] == "bin" and x[1] == "Shl" and x[4] == "u32" and sym.is_c(x[3]) and x[3][1] == 1 \
                and x[2][0] == "cast" and x[2][2] == "u16":
            return binop("Mul", x[2], C(2, "u32"), "u32")
        return x
    return walk(t, f)


def walk(t, f):
    if not isinstance(t, tuple) or not t:
        return t
    if t[0] == "cases":
        return mk_cases(walk(t[1], f), t[2], tuple((rs, walk(x, f)) for rs, x in t[3]))
    t2 = tuple(walk(x, f) if isinstance(x, tuple) else x for x in t)
    return f(t2)


def strip_uom(chk, t, anchor, fn):
    """the argument of Information::new::<byte>(..), distributing over case trees"""
    bad = []

    def leaf(x):
        if x[0] == "uom":
            if UOM_BYTE not in x[1]:
                bad.append(x[1])
            return x[2]
        bad.append(x[:2])
        return x
    r = sym.map_leaves(t, leaf)
    chk.ob("R-WIRE", anchor, not bad, "result is built with Information::new::<byte> on every path" if not bad else "unexpected unit/constructor: %s" % (bad[:2],),
           fn.where(), key="unit")
    return r if not bad else None
