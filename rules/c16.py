"""C16 — chunk and archive identifiers: parsing and successor arithmetic."""
from nx import chrono_model as cm, sym, panics, loops
from nx.spec import *
from rules import common

LEVEL = "other"
RT = "nexrad_data::aws::realtime::"
CI = RT + "chunk_identifier::ChunkIdentifier"
NC = RT + "chunk_identifier::NextChunk"
VI = RT + "volume_index::VolumeIndex"
CT = RT + "chunk_type::ChunkType"
AI = "nexrad_data::aws::archive::identifier::Identifier"
W = "nxwitness::terms::"
LAST_SEQ = 55
ROTATION = 999


def call(name, *args):
    return ("call", name, tuple(args))


def witness_template(ev_w, fn, args):
    t = ev_w.eval_fn(W + fn, args)
    return t


def archive_parsers(chk, prog):
    """site and date-time of an archive file name (also the inputs of the archive download's object key: C17)"""
    ev0 = sym.Evaluator(prog)
    # ---- archive identifiers
    got, fn = eval_or_blind(chk, ev0, "VN", AI + "::site")
    if got is not None:
        expect_c(chk, "VN", AI + "::site", got, call("core::str::<impl str>::get", F("0"), rng(0, 4)), fn.where(), "site = bytes 0..4 (checked)")
    evc = cm.evaluator(prog)
    got, fn = eval_or_blind(chk, evc, "VN", AI + "::date_time")
    if got is not None:
        ds = call("core::str::<impl str>::get", F("0"), rng(4, 12))
        ts = call("core::str::<impl str>::get", F("0"), rng(13, 19))
        pd = lambda x: call("chrono::naive::date::NaiveDate::parse_from_str", x, C("%Y%m%d", "&str"))
        pt = lambda x: call("chrono::naive::time::NaiveTime::parse_from_str", x, C("%H%M%S", "&str"))
        want = sym.opt_match(ds, lambda d: sym.res_match(pd(d), lambda date: sym.opt_match(ts, lambda t: sym.res_match(pt(t), lambda time: some(("instant", date, time)),
            lambda e: NONE), lambda: NONE), lambda e: NONE), lambda: NONE)
        okk = canon_calls(got) == canon_calls(want) or piecewise_eq(canon_calls(got), canon_calls(want))
        chk.ob("VN", AI + "::date_time", okk, "date = bytes 4..12 as %Y%m%d, time = bytes 13..19 as %H%M%S, combined as a UTC instant; None when any step fails" if okk else
               "archive date-time parsing differs: %s" % show(got)[:400], fn.where(), key="archive-date-time")
        chk.ob("R-SIB", AI + "::date_time", 12 - 4 == len("YYYYMMDD") and 19 - 13 == len("HHMMSS"), "slice widths equal the formats' digit counts", fn.where(), key="widths")


def run(chk, tier):
    prog, info = common.program("all")
    common.note_extraction(chk, info, prog)
    common.vacuity(chk, ['R-TEMPLATE', 'R-PANIC', 'R-TABLE'])
    wit = common.witness()
    chk.explanation = ("Value numbering reduces next_chunk, with_sequence, sequence, chunk_type and the archive parsers to canonical terms. The successor is compared with "
                       "its specification: below 55 the same site and volume with name template(prefix, s+1, E iff s+1 = 55 else I); from 55 the next volume, whose "
                       "closed form is tabulated over the whole rotation domain 1..=999 (v -> v+1, 999 -> 1: a rotation by one, hence a single cycle through all "
                       "999 x 55 positions, never 0 or 1000). Names: both writers use the template `{}-{:03}-{}` (decoded from core::fmt's template bytes and "
                       "compared with the same format string compiled in the witness crate); the reader's split index and letter table agree with the writer. "
                       "Archive names: site = bytes 0..4, date = bytes 4..12 as %Y%m%d, time = bytes 13..19 as %H%M%S via checked `get`. R-PANIC: the four parsers "
                       "are total on arbitrary strings.")
    chk.trust("core::fmt's Arguments template encoding (library/core/src/fmt/mod.rs); chrono's parse_from_str accepts exactly the dates/times its format describes; str::get is total")
    chk.assume("the 15-character prefix of a real-time chunk name is YYYYMMDD-HHMMSS (contains exactly one '-')")
    ev = sym.Evaluator(prog, opaque_local=[CI + "::name_prefix", CI + "::sequence"])
    evw = sym.Evaluator(wit)
    slf = P("self")
    prefix = call(CI + "::name_prefix", slf)
    ref = evw.eval_fn(W + "chunk_name_template", [P("a"), P("b"), P("c")])
    tpl = ref[1] if ref[0] == "fmt" else None
    chk.ob("R-TEMPLATE", "witness", tpl is not None and [x[0] for x in tpl] == ["arg", "lit", "arg", "lit", "arg"], "reference template `{}-{:03}-{}` decoded from the witness crate", key="reference-template")

    def name_term(seq_term, letter_term):
        return ("fmt", tpl, (("disp", prefix), ("disp", seq_term), ("disp", letter_term)))

    # ---- with_sequence
    got, fn = eval_or_blind(chk, ev, "VN", CI + "::with_sequence", [slf, P("sequence")])
    if got is not None and tpl is not None:
        s = P("sequence")
        letter = table(s, "usize", [(1, C("S", "&str")), (LAST_SEQ, C("E", "&str"))], C("I", "&str"))
        want = adt(CI, "ChunkIdentifier", (("site", F("site")), ("volume", F("volume")), ("name", name_term(s, letter)), ("date_time", NONE)))
        expect_c(chk, "VN", CI + "::with_sequence", got, want, fn.where(), "same site and volume, name = prefix-{seq:03}-{S at 1, E at 55, else I}")
    next_chunk_checks(chk, prog, ev, tpl, slf, name_term)
    # ---- readers
    ev0 = sym.Evaluator(prog)
    got, fn = eval_or_blind(chk, ev0, "VN", CI + "::sequence")
    if got is not None:
        part = call("core::iter::traits::iterator::Iterator::nth", call("core::str::<impl str>::split", F("name"), C(ord("-"), "char")), C(2, "usize"))
        want = sym.opt_match(part, lambda x: sym.res_match(call("core::str::<impl str>::parse", x), lambda y: some(y), lambda e: NONE), lambda: NONE)
        expect_c(chk, "VN", CI + "::sequence", got, want, fn.where(), "the third '-'-separated field parsed as a number, else None")
        if tpl is not None:
            dashes_before_seq = sum(x[1].count("-") for x in tpl[:2] if x[0] == "lit")
            chk.ob("R-SIB", CI + "::sequence~template", dashes_before_seq + 1 == 2 and tpl[1] == ("lit", "-") and tpl[3] == ("lit", "-"),
                   "writer and reader agree: the sequence is the field after the prefix's own '-' and one template '-' (split index 2)", fn.where(), key="split-index")
    got, fn = eval_or_blind(chk, ev0, "VN", CI + "::chunk_type")
    if got is not None:
        last = call("core::iter::traits::iterator::Iterator::last", call("core::str::<impl str>::chars", F("name")))
        want = sym.opt_match(last, lambda c: table(c, "char", [(ord("S"), some(unit_variant(CT, "Start"))), (ord("I"), some(unit_variant(CT, "Intermediate"))), (ord("E"), some(unit_variant(CT, "End")))], NONE), lambda: NONE)
        # the letters are ASCII: reading the last byte instead of the last char selects the same names (an ASCII byte is never
        # part of a multi-byte UTF-8 sequence), so the byte-wise table is the same specification
        lastb = call("core::slice::<impl [T]>::last", F("name"))
        want_b = sym.opt_match(lastb, lambda c: table(c, "u8", [(ord("S"), some(unit_variant(CT, "Start"))), (ord("I"), some(unit_variant(CT, "Intermediate"))), (ord("E"), some(unit_variant(CT, "End")))], NONE), lambda: NONE)
        if sym.sem_eq(canon_calls(got), canon_calls(want_b)) or piecewise_eq(canon_calls(got), canon_calls(want_b)):
            want = want_b
            chk.trust("an ASCII byte at the end of a str is its last char (UTF-8 continuation and lead bytes are >= 0x80)")
        expect_c(chk, "VN", CI + "::chunk_type", got, want, fn.where(), "last character S/I/E -> Start/Intermediate/End, anything else None")
        if tpl is not None:
            chk.ob("R-SIB", CI + "::chunk_type~template", tpl[-1][0] == "arg", "the type letter is the template's last element, so it is the name's last character", fn.where(), key="letter-last")
    got, fn = eval_or_blind(chk, ev0, "VN", CI + "::name_prefix")
    if got is not None:
        okk = got[0] == "call" and got[1].endswith("::index") and got[2][0] == F("name") and got[2][1] == adt("core::ops::range::RangeTo", "RangeTo", (("end", C(15, "usize")),))
        chk.ob("VN", CI + "::name_prefix", okk, "prefix = the first 15 bytes of the name", fn.where(), key="prefix")
    archive_parsers(chk, prog)
    # ---- totality of the four parsers on arbitrary strings
    panics.check_no_panic(chk, prog, [AI + "::site", AI + "::date_time", CI + "::sequence", CI + "::chunk_type"], "string parsers")
    # ---- never volume 0 or 1000: the VolumeIndex::new assertion is discharged on the rotation domain
    vol = ("fld", ("arg", 1), "volume")
    seeds = {CI + "::next_chunk": {("fld", vol, "0"): (1, ROTATION), ("call", VI + "::as_number", (vol,)): (1, ROTATION)}}
    chk.assume("volume in 1..=999 on entry to next_chunk (the property's domain)")
    panics.check_no_panic(chk, prog, [CI + "::next_chunk"], "successor on the rotation domain", seeds=seeds, only=[CI + "::next_chunk"], ctx_callees=[VI + "::new"], rule="R-PANIC")


def next_chunk_checks(chk, prog, ev, tpl, slf, name_term):
    # ---- next_chunk
    got, fn = eval_or_blind(chk, ev, "VN", CI + "::next_chunk", [slf])
    if got is not None and tpl is not None:
        sq = call(CI + "::sequence", slf)
        s = ("vfld", sq, "Some", "0")
        s1 = binop("Add", s, C(1, "usize"), "usize")
        letter = ite(eq_c(s1, "usize", LAST_SEQ), C("E", "&str"), C("I", "&str"))
        ident = adt(CI, "ChunkIdentifier", (("site", F("site")), ("volume", F("volume")), ("name", name_term(s1, letter)), ("date_time", NONE)))
        # split the found term into the two regimes
        inner = None
        if got[0] == "cases" and got[1] == ("discr", sq):
            arms = {("some" if any(lo <= 1 <= hi for lo, hi in rs) else "none"): x for rs, x in got[3]}
            chk.ob("VN", CI + "::next_chunk", arms.get("none") == NONE, "no successor when the name has no parsable sequence", fn.where(), key="no-sequence")
            inner = arms.get("some")
        if inner is None or inner[0] != "cases" or inner[1] != s:
            chk.ob("VN", CI + "::next_chunk", False, "successor is not a two-regime function of the sequence: %s" % show(got)[:200], fn.where(), key="shape")
        else:
            low = [x for rs, x in inner[3] if rs == ((0, LAST_SEQ - 1),)]
            high = [x for rs, x in inner[3] if rs == ((LAST_SEQ, 2 ** 64 - 1),)]
            chk.ob("VN", CI + "::next_chunk", len(low) == 1 and len(high) == 1, "the sequence regimes are s < 55 and s >= 55 (found %s)" % [rs_show(rs) for rs, x in inner[3]], fn.where(), key="regimes")
            if len(low) == 1:
                expect_c(chk, "VN", CI + "::next_chunk", low[0], some(adt(NC, "Sequence", (("0", ident),))), fn.where(), "below 55: same site/volume, sequence + 1, letter E exactly at 55", key="successor-in-volume")
            if len(high) == 1:
                hv = high[0]
                v = fld(F("volume"), "0")
                okk = hv[0] == "adt" and hv[2] == "Some" and hv[3][0][1][0] == "adt" and hv[3][0][1][2] == "Volume"
                nv = hv[3][0][1][3][0][1] if okk else None
                if okk and nv[0] in ("cases", "ite"):
                    # VolumeIndex::new's debug assertion leaves a panic leaf for out-of-range values: keep it as a leaf
                    nv = ("adt", VI, "VolumeIndex", (("0", sym.map_leaves(nv, lambda x: x[3][0][1] if (x[0] == "adt" and x[1] == VI) else x)),))
                okk = okk and nv[0] == "adt" and nv[1] == VI
                if not okk:
                    chk.ob("VN", CI + "::next_chunk", False, "at 55 the successor is not NextChunk::Volume(VolumeIndex(..)): %s" % show(hv)[:200], fn.where(), key="successor-volume")
                else:
                    f = nv[3][0][1]
                    bad = []
                    for k in range(1, ROTATION + 1):
                        r = common.at_point(f, v, C(k, "usize"))
                        exp = 1 if k == ROTATION else k + 1
                        if r != C(exp, "usize"):
                            bad.append((k, show(r)[:40]))
                    chk.ob("VN", CI + "::next_chunk", not bad, "next volume = v + 1 for 1..=998 and 1 for 999 (closed form %s tabulated over the whole rotation domain)" % show(f)[:120] if not bad else
                           "next volume is wrong for %d volume(s), e.g. %s (closed form %s)" % (len(bad), bad[:3], show(f)[:160]), fn.where(), key="rotation")
                    chk.notes["rotation_points_tabulated"] = ROTATION


def rng(a, b):
    return adt("core::ops::range::Range", "Range", (("start", C(a, "usize")), ("end", C(b, "usize"))))


def strip_utc(t):
    """the Utc unit-struct constant is printed differently in different positions; ignore it"""
    if not isinstance(t, tuple):
        return t
    if t and t[0] == "const" and "Utc" in str(t[1]):
        return ("Utc",)
    return tuple(strip_utc(x) if isinstance(x, tuple) else x for x in t)


def successor_only(chk, prog):
    """the successor checks alone (used by C18, whose delivery order rests on them)"""
    wit = common.witness()
    ev = sym.Evaluator(prog, opaque_local=[CI + "::name_prefix", CI + "::sequence"])
    evw = sym.Evaluator(wit)
    slf = P("self")
    prefix = call(CI + "::name_prefix", slf)
    ref = evw.eval_fn(W + "chunk_name_template", [P("a"), P("b"), P("c")])
    tpl = ref[1] if ref[0] == "fmt" else None

    def name_term(seq_term, letter_term):
        return ("fmt", tpl, (("disp", prefix), ("disp", seq_term), ("disp", letter_term)))
    next_chunk_checks(chk, prog, ev, tpl, slf, name_term)
