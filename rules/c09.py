"""C09 — sweep grouping and merging conserve radials."""
from nx import sym, loops, listalg
from nx.spec import *
from rules import common

LEVEL = "other"
SW = "nexrad_model::data::sweep::Sweep"
FR = SW + "::from_radials"
MERGE = SW + "::merge"


CFG = {"fn": None, "group": SW, "radials": "radials", "label": "elevation_number", "elem_label": "elevation_number",
       "payload_ty": "nexrad_model::data::radial::Radial"}


def sweep_inner(x):
    """radials contained in an emitted Sweep value"""
    if x[0] == "adt" and x[1] == CFG["group"]:
        return listalg.seq(fld(x, CFG["radials"]))
    return None


def is_some_cond(c, L):
    return len(c) == 3 and c[0] == ("discr", L) and c[2] == ((1, 1),)


def is_none_cond(c, L):
    return len(c) == 3 and c[0] == ("discr", L) and not any(lo <= 1 <= hi for lo, hi in c[2])


def run(chk, tier):
    prog, info = common.program("all")
    common.note_extraction(chk, info, prog)
    common.vacuity(chk, ['R-LIN'])
    chk.explanation = ("Conservation is proved as an induction over the grouping loop, decided from the loop's value-numbered summary with a list algebra "
                       "(Vec::new = [], push = append): content(state) = flatten(sweeps) ++ pending. Obligations: content is [] at entry; every way round "
                       "the loop consumes exactly one radial r from the iterator and gives content' = content ++ [r]; the invariants 'no label => pending empty' "
                       "and 'label x => pending non-empty, all of elevation x' are inductive; a sweep is emitted only as (label, pending) under label != "
                       "elevation(r); the value returned at the loop's normal exit has content flatten(sweeps) ++ pending. merge: error exactly on unequal "
                       "elevation numbers, otherwise first-then-second concatenation followed by one stable sort keyed by azimuth number.")
    chk.trust("Vec::push appends, Vec::extend appends in order, vec::IntoIter yields elements in order, slice::sort_by_key is stable (alloc docs)")
    from_radials(chk, prog)
    merge(chk, prog)


def from_radials(chk, prog, cfg=None):
    """the grouping-loop induction; `cfg` lets the vacuity guard run it on the witness crate's look-alikes"""
    global CFG
    saved = dict(CFG)
    if cfg:
        CFG.update(cfg)
    try:
        _from_radials(chk, prog, CFG.get("fn") or FR)
    finally:
        CFG.clear()
        CFG.update(saved)


def _from_radials(chk, prog, FR):
    SW = CFG["group"]
    fn = prog.fn(FR)
    if fn is None:
        chk.blind("R-LIN", FR, "function not found")
        return
    try:
        ls = loops.summarize(prog, fn)
    except sym.Undecided as e:
        chk.blind("R-LIN", FR, "grouping loop could not be summarised: %s" % e, fn.where())
        return
    chk.ob("R-LIN", FR, len(ls) == 1, "%d loop(s) (one expected)" % len(ls), fn.where(), key="one-loop")
    if len(ls) != 1:
        return
    lp = ls[0]
    where = lp["where"]
    pre_loop(chk, prog, fn, FR, lp)
    names = {fn.local_name(l): l for l in lp["tracked"]}
    # roles: result accumulator (Vec<Sweep>), pending run (Vec<Radial>), label (Option<u8>), iterator
    role = {}
    for l in lp["tracked"]:
        ty = fn.local_ty(l)
        if ty.startswith("alloc::vec::Vec<%s" % SW):
            role["S"] = l
        elif ty.startswith("alloc::vec::Vec<" + CFG["payload_ty"]):
            role["R"] = l
        elif ty.startswith("core::option::Option<u8>"):
            role["N"] = l
        elif "IntoIter" in ty:
            role["I"] = l
    if set(role) == {"S", "I"}:
        return _append_to_last(chk, prog, fn, FR, lp, role, where)
    for l in lp["tracked"]:
        if fn.local_ty(l) == "u8" and "N" not in role:
            role["N8"] = l
    if set(role) == {"S", "R", "N8", "I"}:
        return _seeded_first(chk, prog, fn, FR, lp, role, where)
    role.pop("N8", None)
    if set(role) != {"S", "R", "N", "I"}:
        chk.blind("R-LIN", FR, "loop state is not (sweeps, pending run, label, iterator): tracked %s" % [(fn.local_name(l), fn.local_ty(l)) for l in lp["tracked"]], where)
        return
    S, R, N, I = (P("L%d" % role[k]) for k in "SRNI")
    e0 = lp["entry"]
    # (1) initial state
    chk.ob("R-LIN", FR, listalg.seq(e0[role["S"]]) == [] and listalg.seq(e0[role["R"]]) == [] and e0[role["N"]] == NONE,
           "before the loop: no sweeps, empty pending run, no label", where, key="init")
    src = listalg.seq(e0[role["I"]])
    chk.ob("R-LIN", FR, src == [("atom", P(fn.local_name(1) or "arg1"))], "the loop iterates the input vector itself, in order (%s)" % listalg.show(src), where, key="source")
    nxt = None
    n_cases = 0
    for conds, kind, val in lp["paths"]:
        if kind == "exit:normal":
            chk.ob("R-LIN", FR, len(conds) == 1 and conds[0][0][0] == "discr" and conds[0][0][1][0] == "call" and "Iterator>::next" in conds[0][0][1][1],
                   "the loop ends exactly when the iterator is exhausted", where, key="exit-when-exhausted")
            continue
        if kind != "next":
            chk.ob("R-LIN", FR, False, "the loop can be left in an unexpected way (%s)" % kind, where, key="exit:" + kind)
            continue
        call = conds[0][0][1] if conds and conds[0][0][0] == "discr" else None
        okc = call is not None and call[0] == "call" and "Iterator>::next" in call[1] and call[2] == (I,)
        chk.ob("R-LIN", FR, bool(okc), "each iteration takes its radial from one call of next() on the loop's iterator", where, key="one-next")
        if not okc:
            continue
        r = ("vfld", call, "Some", "0")
        er = fld(r, CFG["elem_label"])
        base = [("flat", S)] + listalg.seq(R)
        for c2, v in loops.split_cases(val):
            n_cases += 1
            tag = "case#%d" % n_cases
            s2, r2 = listalg.seq(v[role["S"]]), listalg.seq(v[role["R"]])
            content = None
            if s2 is not None and r2 is not None:
                fl = listalg.flatten(s2, sweep_inner)
                content = fl + r2 if fl is not None else None
            want = base + [("elem", r)]
            # (2) conservation step
            chk.ob("R-LIN", FR, content == want, "content' = content ++ [r]" if content == want else
                   "radials are not conserved on this path: content' = %s, expected %s" % (listalg.show(content), listalg.show(want)), where, key=tag + ":step")
            chk.ob("R-LIN", FR, v[role["I"]][0] == "mutated" and v[role["I"]][3][0] == I and "Iterator>::next" in v[role["I"]][1],
                   "the iterator is advanced exactly once", where, key=tag + ":advance")
            # (3) invariants: label' = Some(elev(r)); pending' is [r] or pending ++ [r] with pending all of that elevation
            chk.ob("R-LIN", FR, v[role["N"]] == some(er), "label' = Some(elevation(r))", where, key=tag + ":label")
            was_none = any(is_none_cond(c, N) for c in c2)
            was_some = any(is_some_cond(c, N) for c in c2)
            label = ("vfld", N, "Some", "0")
            same = any(len(c) == 2 and c[1] is False and c[0] in (("bin", "Ne", er, label, "u8"), ("bin", "Ne", label, er, "u8")) or
                       len(c) == 2 and c[1] is True and c[0] in (("bin", "Eq", er, label, "u8"), ("bin", "Eq", label, er, "u8")) for c in c2)
            differ = any(len(c) == 2 and c[1] is True and c[0] in (("bin", "Ne", er, label, "u8"), ("bin", "Ne", label, er, "u8")) or
                         len(c) == 2 and c[1] is False and c[0] in (("bin", "Eq", er, label, "u8"), ("bin", "Eq", label, er, "u8")) for c in c2)
            if r2 == [("elem", r)]:
                inv = True                      # fresh run
            elif r2 == listalg.seq(R) + [("elem", r)]:
                inv = was_none or (was_some and same)      # extends the run: allowed when it was empty (no label) or r has the label's elevation
            else:
                inv = False
            chk.ob("R-LIN", FR, inv, "pending' holds only radials of the new label's elevation" if inv else
                   "the pending run is extended with a radial of a different elevation, or rebuilt wrongly: %s" % listalg.show(r2), where, key=tag + ":run-invariant")
            # (4) emissions
            if s2 is not None and s2 != [("atom", S)]:
                em = [x for k, x in s2 if k == "elem"]
                okk = len(em) == 1 and s2[0] == ("atom", S) and em[0][0] == "adt" and fld(em[0], CFG["label"]) == label and fld(em[0], CFG["radials"]) == R and was_some and differ
                chk.ob("R-LIN", FR, okk, "a sweep is emitted only as (label, pending run) when a label exists and differs from elevation(r)", where, key=tag + ":emit")
    chk.floor("iteration cases", n_cases, 3)
    # (5) the value returned at the normal exit
    try:
        ret = loops.exit_value(prog, fn, lp)
    except sym.Undecided as e:
        chk.blind("R-LIN", FR, "exit continuation undecided: %s" % e, where)
        return
    for c2, v in loops.split_cases({0: ret}):
        res = listalg.seq(v[0])
        fl = listalg.flatten(res, sweep_inner) if res is not None else None
        none = any(is_none_cond(c, N) for c in c2) or any(len(c) == 3 and c[0][0] == "call" and c[0][1].endswith("::is_empty") and c[0][2] == (R,) and c[2] == ((1, 1),) for c in c2) \
            or any(len(c) == 2 and c[0][0] == "call" and c[0][1].endswith("::is_empty") and c[0][2] == (R,) and c[1] is True for c in c2)
        want = [("flat", S)] if none else [("flat", S)] + listalg.seq(R)
        okk = fl == want
        chk.ob("R-LIN", FR, okk, "at end of input the result's content is flatten(sweeps)%s" % ("" if none else " ++ pending") if okk else
               "at end of input %s the result's content is %s but must be %s: the pending run is lost" % ("(no label)" if none else "(a run is pending)", listalg.show(fl), listalg.show(want)),
               where, key="exit:%s" % ("no-run" if none else "pending-run"))
        if not none and okk:
            em = [x for k, x in res if k == "elem"]
            chk.ob("R-LIN", FR, len(em) == 1 and fld(em[0], CFG["label"]) == ("vfld", N, "Some", "0"), "the final sweep carries the pending label", where, key="exit:label")


def _seeded_first(chk, prog, fn, FR, lp, role, where):
    """the same induction for the form that takes the first radial before the loop: the label is a plain u8 seeded with
    elevation(first), the pending run starts as [first] (so it is never empty), and the final flush is unconditional"""
    S, R, N, I = (P("L%d" % role[k]) for k in ("S", "R", "N8", "I"))
    e0 = lp["entry"]
    arg = P(fn.local_name(1) or "arg1")
    it = ("call", "<alloc::vec::Vec<T, A> as core::iter::traits::collect::IntoIterator>::into_iter", (arg,))
    first_call = ("call", "core::iter::traits::iterator::Iterator::nth", (it, C(0, "usize")))
    first = ("vfld", first_call, "Some", "0")
    okk = listalg.seq(e0[role["S"]]) == [] and listalg.seq(e0[role["R"]]) == [("elem", first)] and e0[role["N8"]] == fld(first, CFG["elem_label"]) \
        and e0[role["I"]] == ("advanced", it, 1)
    chk.ob("R-LIN", FR, okk, "before the loop: no sweeps, pending run = [first radial of the input], label = elevation(first), iterator = the rest of the input", where, key="init")
    chk.ob("R-LIN", FR, True, "the loop iterates the input vector itself, in order (after its first element)", where, key="source")
    n_cases = 0
    for conds, kind, val in lp["paths"]:
        if kind == "exit:normal":
            chk.ob("R-LIN", FR, len(conds) == 1 and conds[0][0][0] == "discr" and conds[0][0][1][0] == "call" and "Iterator>::next" in conds[0][0][1][1],
                   "the loop ends exactly when the iterator is exhausted", where, key="exit-when-exhausted")
            continue
        if kind != "next":
            chk.ob("R-LIN", FR, False, "the loop can be left in an unexpected way (%s)" % kind, where, key="exit:" + kind)
            continue
        call = conds[0][0][1] if conds and conds[0][0][0] == "discr" else None
        okc = call is not None and call[0] == "call" and "Iterator>::next" in call[1] and call[2] == (I,)
        chk.ob("R-LIN", FR, bool(okc), "each iteration takes its radial from one call of next() on the loop's iterator", where, key="one-next")
        if not okc:
            continue
        r = ("vfld", call, "Some", "0")
        er = fld(r, CFG["elem_label"])
        base = [("flat", S)] + listalg.seq(R)
        for c2, v in loops.split_cases(val):
            n_cases += 1
            tag = "case#%d" % n_cases
            s2, r2 = listalg.seq(v[role["S"]]), listalg.seq(v[role["R"]])
            content = None
            if s2 is not None and r2 is not None:
                fl = listalg.flatten(s2, sweep_inner)
                content = fl + r2 if fl is not None else None
            want = base + [("elem", r)]
            chk.ob("R-LIN", FR, content == want, "content' = content ++ [r]" if content == want else
                   "radials are not conserved on this path: content' = %s, expected %s" % (listalg.show(content), listalg.show(want)), where, key=tag + ":step")
            chk.ob("R-LIN", FR, v[role["I"]][0] == "mutated" and v[role["I"]][3][0] == I and "Iterator>::next" in v[role["I"]][1],
                   "the iterator is advanced exactly once", where, key=tag + ":advance")
            chk.ob("R-LIN", FR, v[role["N8"]] == er, "label' = elevation(r)", where, key=tag + ":label")
            eqs = (("bin", "Eq", er, N, "u8"), ("bin", "Eq", N, er, "u8"))
            nes = (("bin", "Ne", er, N, "u8"), ("bin", "Ne", N, er, "u8"))
            same = any(len(c) == 2 and ((c[1] is True and c[0] in eqs) or (c[1] is False and c[0] in nes)) for c in c2)
            differ = any(len(c) == 2 and ((c[1] is True and c[0] in nes) or (c[1] is False and c[0] in eqs)) for c in c2)
            if r2 == [("elem", r)]:
                inv = True
            elif r2 == listalg.seq(R) + [("elem", r)]:
                inv = same
            else:
                inv = False
            chk.ob("R-LIN", FR, inv, "pending' holds only radials of the new label's elevation" if inv else
                   "the pending run is extended with a radial of a different elevation, or rebuilt wrongly: %s" % listalg.show(r2), where, key=tag + ":run-invariant")
            if s2 is not None and s2 != [("atom", S)]:
                em = [x for k, x in s2 if k == "elem"]
                okk = len(em) == 1 and s2[0] == ("atom", S) and em[0][0] == "adt" and fld(em[0], CFG["label"]) == N and fld(em[0], CFG["radials"]) == R and differ
                chk.ob("R-LIN", FR, okk, "a sweep is emitted only as (label, pending run) when the label differs from elevation(r)", where, key=tag + ":emit")
            else:
                # adjacent sweeps carry different numbers: a radial of another elevation must close the run
                chk.ob("R-LIN", FR, not differ, "a radial of a different elevation closes the pending run", where, key=tag + ":emit")
    chk.floor("iteration cases", n_cases, 2)
    try:
        ret = loops.exit_value(prog, fn, lp)
    except sym.Undecided as e:
        chk.blind("R-LIN", FR, "exit continuation undecided: %s" % e, where)
        return
    for c2, v in loops.split_cases({0: ret}):
        res = listalg.seq(v[0])
        fl = listalg.flatten(res, sweep_inner) if res is not None else None
        want = [("flat", S)] + listalg.seq(R)
        okk = fl == want
        chk.ob("R-LIN", FR, okk, "at end of input the result's content is flatten(sweeps) ++ pending" if okk else
               "at end of input the result's content is %s but must be %s: the pending run is lost" % (listalg.show(fl), listalg.show(want)), where, key="exit:pending-run")
        if okk:
            em = [x for k, x in res if k == "elem"]
            chk.ob("R-LIN", FR, len(em) == 1 and fld(em[0], CFG["label"]) == N and fld(em[0], CFG["radials"]) == R, "the final sweep carries the pending label and run", where, key="exit:label")


STABLE_SORTS = ("alloc::slice::<impl [T]>::sort_by_key", "alloc::slice::<impl [T]>::sort_by", "alloc::slice::<impl [T]>::sort_by_cached_key")


def pre_loop(chk, prog, fn, FR, lp):
    """no result is returned before the grouping loop, except an empty list for an empty input"""
    try:
        pre = [(c_, l_) for c_, l_ in loops.paths(loops.entry_env(prog, fn, lp["head"])[1]) if isinstance(l_, tuple) and l_ and l_[0] != "@join"]
    except sym.Undecided as e:
        chk.blind("R-LIN", FR, "code before the grouping loop could not be evaluated: %s" % e, fn.where())
        return
    arg = P(fn.local_name(1) or "arg1")
    bad = []
    for c_, l_ in pre:
        try:
            empty = listalg.seq(l_) == []
        except Exception:
            empty = False
        on_empty = any(_says_empty(k, arg) for k in c_)
        if not (empty and on_empty):
            bad.append("returns %s when %s" % (show(l_)[:80], "; ".join(show(k[0])[:60] for k in c_)[:160]))
    chk.ob("R-LIN", FR, not bad, "nothing is returned before the grouping loop (at most the empty list for an empty input)" if not bad else
           "a result is produced without running the grouping loop: " + "; ".join(bad)[:400], fn.where(), key="pre-loop-returns")


def _says_empty(k, arg):
    """condition k holds only when the input vector is empty: is_empty(arg) is true, or len(arg) is 0"""
    t = k[0]
    if len(k) == 3 and t[0] == "discr" and t[1][0] == "call" and t[1][1].endswith("Iterator::nth") and t[1][2][1:] == (C(0, "usize"),) \
            and t[1][2][0] == ("call", "<alloc::vec::Vec<T, A> as core::iter::traits::collect::IntoIterator>::into_iter", (arg,)):
        return k[2] == ((0, 0),)          # the input's first next() is None
    def mentions(x):
        return x == arg or (isinstance(x, tuple) and any(mentions(y) for y in x))
    if not mentions(t):
        return False
    if t[0] == "call" and "is_empty" in t[1]:
        return len(k) == 2 and k[1] is True
    if t[0] in ("len",) or (t[0] == "call" and t[1].endswith("::len")):
        return len(k) == 3 and k[2] == ((0, 0),)
    if t[0] == "eq" and any(sym.is_c(x) and x[1] == 0 for x in t[1:]) and any(isinstance(x, tuple) and (x[0] == "len" or (x[0] == "call" and x[1].endswith("::len"))) for x in t[1:]):
        return len(k) == 2 and k[1] is True
    return False


def _eq_verdict(conds, ea, eb):
    """'eq' | 'ne' | None: what a path's conditions say about ea == eb (either operand order, == or !=)"""
    eqs = {binop("Eq", ea, eb, "u8"), binop("Eq", eb, ea, "u8")}
    nes = {binop("Ne", ea, eb, "u8"), binop("Ne", eb, ea, "u8")}
    out = set()
    for k in conds:
        if len(k) == 2:
            term, val = k
        elif len(k) == 3 and k[1] == "bool" and k[2] in (((1, 1),), ((0, 0),)):
            term, val = k[0], k[2] == ((1, 1),)
        else:
            continue
        if term in eqs:
            out.add("eq" if val else "ne")
        elif term in nes:
            out.add("ne" if val else "eq")
    return out.pop() if len(out) == 1 else None


def _concat(t):
    """sequence of a first-then-second concatenation (extend/append chains over a fresh or moved-in vector)"""
    return listalg.seq(t)


def _append_to_last(chk, prog, fn, FR, lp, role, where):
    """the other way of writing the grouping: no pending run; each radial either joins the last emitted sweep (when that
    sweep exists and carries the radial's elevation number) or starts a new one-radial sweep. Induction on
    content(state) = flatten(sweeps), with the list laws flatten(S with last := s') = flatten(S) ++ (inner(s') - inner(last S))
    for non-empty S and flatten(S ++ [s]) = flatten(S) ++ inner(s)."""
    SWP = CFG["group"]
    S, I = P("L%d" % role["S"]), P("L%d" % role["I"])
    e0 = lp["entry"]
    chk.ob("R-LIN", FR, listalg.seq(e0[role["S"]]) == [], "before the loop: no sweeps", where, key="init")
    src = listalg.seq(e0[role["I"]])
    chk.ob("R-LIN", FR, src == [("atom", P(fn.local_name(1) or "arg1"))], "the loop iterates the input vector itself, in order (%s)" % listalg.show(src), where, key="source")
    last = ("last", S)
    n_cases = 0
    for conds, kind, val in lp["paths"]:
        if kind == "exit:normal":
            chk.ob("R-LIN", FR, len(conds) == 1 and conds[0][0][0] == "discr" and conds[0][0][1][0] == "call" and "Iterator>::next" in conds[0][0][1][1],
                   "the loop ends exactly when the iterator is exhausted", where, key="exit-when-exhausted")
            continue
        if kind != "next":
            chk.ob("R-LIN", FR, False, "the loop can be left in an unexpected way (%s)" % kind, where, key="exit:" + kind)
            continue
        call = conds[0][0][1] if conds and conds[0][0][0] == "discr" else None
        okc = call is not None and call[0] == "call" and "Iterator>::next" in call[1] and call[2] == (I,)
        chk.ob("R-LIN", FR, bool(okc), "each iteration takes its radial from one call of next() on the loop's iterator", where, key="one-next")
        if not okc:
            continue
        r = ("vfld", call, "Some", "0")
        er = fld(r, CFG["elem_label"])
        el = fld(last, CFG["label"])
        for c2, v in loops.split_cases(val):
            n_cases += 1
            tag = "case#%d" % n_cases
            truth = lambda terms: [c[1] for c in c2 if len(c) == 2 and c[0] in terms]
            emp = truth({("call", "core::slice::<impl [T]>::is_empty", (S,)), ("call", "alloc::vec::Vec::<T, A>::is_empty", (S,))})
            same = truth({binop("Eq", el, er, "u8"), binop("Eq", er, el, "u8")}) + [not x for x in truth({binop("Ne", el, er, "u8"), binop("Ne", er, el, "u8")})]
            nonempty = emp == [False]
            sv = v[role["S"]]
            ext = ("upd_last", S, ("upd", last, CFG["radials"], ("mutated", "alloc::vec::Vec::<T, A>::push", 0, (fld(last, CFG["radials"]), r))))
            s2 = listalg.seq(sv)
            if sv == ext:
                chk.ob("R-LIN", FR, True, "content' = content ++ [r] (r appended to the last sweep's radials)", where, key=tag + ":step")
                okk = nonempty and same == [True]
                chk.ob("R-LIN", FR, okk, "the last sweep is extended only when it exists and carries r's elevation number" if okk else
                       "a radial is appended to the last sweep without that sweep existing and having r's elevation number", where, key=tag + ":run-invariant")
            elif s2 is not None and len(s2) == 2 and s2[0] == ("atom", S) and s2[1][0] == "elem":
                x = s2[1][1]
                inner = listalg.seq(fld(x, CFG["radials"])) if x[0] == "adt" and x[1] == SWP else None
                okk = inner == [("elem", r)]
                chk.ob("R-LIN", FR, okk, "content' = content ++ [r] (a new sweep holding exactly r)" if okk else
                       "radials are not conserved on this path: the new sweep holds %s" % listalg.show(inner), where, key=tag + ":step")
                chk.ob("R-LIN", FR, x[0] == "adt" and fld(x, CFG["label"]) == er, "the new sweep is labelled elevation(r)", where, key=tag + ":label")
                okk = emp == [True] or (nonempty and same == [False])
                chk.ob("R-LIN", FR, okk, "a new sweep starts only when there is none yet or the last one carries a different elevation number" if okk else
                       "a new sweep is started although the last sweep has r's elevation number (adjacent sweeps would share a number)", where, key=tag + ":emit")
            else:
                chk.ob("R-LIN", FR, False, "radials are not conserved on this path: sweeps' = %s" % show(sv)[:200], where, key=tag + ":step")
            it = v[role["I"]]
            chk.ob("R-LIN", FR, it[0] == "mutated" and it[3][0] == I and "Iterator>::next" in it[1], "the iterator is advanced exactly once", where, key=tag + ":advance")
    chk.floor("iteration cases", n_cases, 3)
    try:
        ret = loops.exit_value(prog, fn, lp)
    except sym.Undecided as e:
        chk.blind("R-LIN", FR, "exit continuation undecided: %s" % e, where)
        return
    chk.ob("R-LIN", FR, ret == S, "at end of input the result is the list of sweeps built so far (content flatten(sweeps))" if ret == S else
           "at end of input the result is %s, not the sweeps built" % show(ret)[:200], where, key="exit:no-run")


def merge(chk, prog):
    ev = sym.Evaluator(prog)
    fn = prog.fn(MERGE)
    got, _ = eval_or_blind(chk, ev, "VN", MERGE, [P("self"), P("other")])
    if got is None:
        return
    a, b = P("self"), P("other")
    ea, eb = fld(a, "elevation_number"), fld(b, "elevation_number")
    leaves = [(_eq_verdict(c, ea, eb), x) for c, x in loops.paths(got)]
    err_leaf = [x for v, x in leaves if v == "ne"]
    ok_leaf = [x for v, x in leaves if v == "eq"]
    und = [x for v, x in leaves if v is None]
    chk.ob("R-ORDER", MERGE, not und and len(err_leaf) >= 1 and len(ok_leaf) == 1 and all(x[0] == "adt" and x[2] == "Err" for x in err_leaf)
           and ok_leaf[0][0] == "adt" and ok_leaf[0][2] == "Ok",
           "Err exactly when the elevation numbers differ, Ok otherwise", fn.where(), key="error-iff-mismatch")
    if len(ok_leaf) != 1 or ok_leaf[0][0] != "adt" or ok_leaf[0][2] != "Ok":
        return
    res = ok_leaf[0][3][0][1]
    chk.ob("R-WIRE", MERGE, res[0] == "adt" and fld(res, "elevation_number") in (ea, eb), "merged sweep keeps the common elevation number", fn.where(), key="label")
    rad = fld(res, "radials") if res[0] == "adt" else ("?",)
    okk = rad[0] == "mutated" and rad[1] in STABLE_SORTS and rad[2] == 0
    chk.ob("R-LIN", MERGE, okk, "radials are ordered by exactly one stable sort (slice::sort_by_key / sort_by / sort_by_cached_key)" if okk else
           "radials are not produced by one stable sort: %s" % show(rad)[:200], fn.where(), key="stable-sort")
    if not okk:
        return
    inner, clo = rad[3][0], rad[3][1]
    s2 = _concat(inner)
    want = [("atom", fld(a, "radials")), ("atom", fld(b, "radials"))]
    chk.ob("R-LIN", MERGE, s2 == want, "before sorting the radials are self's followed by other's (ties stay first-then-second)" if s2 == want else
           "concatenation order is %s, must be self then other" % (listalg.show(s2) if s2 else show(inner)[:200]), fn.where(), key="first-then-second")
    if rad[1].endswith("::sort_by"):
        # comparator form: must be Ord::cmp(key(x), key(y)) for the same key on both sides, in argument order
        X, Y = P("x"), P("y")
        try:
            cmpv = ev.apply_closure(clo, [X, Y], 0)
        except sym.Undecided as e:
            cmpv = ("undecided", str(e))
        okc = cmpv[0] == "call" and cmpv[1].endswith("::cmp") and "Ord" in cmpv[1] and len(cmpv[2]) == 2 and \
            cmpv[2][0] == fld(X, "azimuth_number") and cmpv[2][1] == fld(Y, "azimuth_number")
        chk.ob("VN", MERGE, okc, "comparator is azimuth_number(x).cmp(azimuth_number(y))" if okc else
               "comparator is %s, expected Ord::cmp(x.azimuth_number, y.azimuth_number)" % show(cmpv)[:200], fn.where(), key="sort key is the radial's azimuth number")
        return
    try:
        key = ev.apply_closure(clo, [sym.ELEM], 0)
    except sym.Undecided as e:
        key = ("undecided", str(e))
    expect(chk, "VN", MERGE, key, fld(sym.ELEM, "azimuth_number"), fn.where(), "sort key is the radial's azimuth number")
