"""C12 — RDA status message: layout, coded fields, flags, scaled values, alarm table."""
from nx import sym, layout
from nx.spec import *
from rules import common

LEVEL = "other"
R = "nexrad_decode::messages::rda_status_data::"
MSG = R + "message::Message"
DEF = R + "definitions::"

# frozen code tables (confirmed on the pinned tree against the field documentation and their use in summarize/rda.rs; DESIGN §3 C12 oracle note)
CODED = {
    "rda_status": ("RDAStatus", {2: "StartUp", 4: "Standby", 8: "Restart", 16: "Operate", 32: "Spare"}),
    "operability_status": ("OperabilityStatus", {2: "OnLine", 4: "MaintenanceActionRequired", 8: "MaintenanceActionMandatory", 16: "CommandedShutDown", 32: "Inoperable"}),
    "control_status": ("ControlStatus", {2: "LocalControlOnly", 4: "RemoteControlOnly", 8: "EitherLocalOrRemoteControl"}),
    "auxiliary_power_generator_state": ("AuxiliaryPowerGeneratorState", {1: "SwitchedToAuxiliaryPower", 2: "UtilityPowerAvailable", 4: "GeneratorOn",
                                                                         8: "TransferSwitchSetToManual", 16: "CommandedSwitchover"}),
    "rda_control_authorization": ("ControlAuthorization", {0: "NoAction", 1: "LocalControlRequested", 2: "RemoteControlRequested"}),
    "operational_mode": ("OperationalMode", {4: "Operational", 8: "Maintenance"}),
    "super_resolution_status": ("SuperResolutionStatus", {2: "Enabled", 4: "Disabled"}),
    "spot_blanking_status": ("SpotBlankingStatus", {0: "NotInstalled", 1: "Enabled", 4: "Disabled"}),
    "transition_power_source_status": ("TransitionPowerSourceStatus", {0: "NotInstalled", 1: "Off", 3: "OK", 4: "Unknown"}),
    "rms_control_status": ("RMSControlStatus", {0: "NonRMS", 2: "RMSInControl", 4: "RDAInControl"}),
    "performance_check_status": ("PerformanceCheckStatus", {0: "NoCommandPending", 1: "ForcePerformanceCheckPending", 2: "InProgress"}),
}
CMD_ACK = {1: "RemoteVCPReceived", 2: "ClutterBypassMapReceived", 3: "ClutterCensorZonesReceived", 4: "RedundantChannelControlCommandAccepted"}
FLAGS = {
    R + "data_transmission_enabled::DataTransmissionEnabled": {"none": 0, "reflectivity": 1, "velocity": 2, "spectrum_width": 3},
    R + "scan_data_flags::ScanDataFlags": {"avset_enabled": 0, "ebc_enabled": 2, "rda_log_data_enabled": 3, "time_series_data_recording_enabled": 4},
    R + "alarm::summary::Summary": {"tower_utilities": 0, "pedestal": 1, "transmitter": 2, "receiver": 3, "rda_control": 4, "communication": 5, "signal_processor": 6},
}
WRAPPERS = {"data_transmission_enabled": (R + "data_transmission_enabled::DataTransmissionEnabled", "data_transmission_enabled"),
            "rda_scan_and_data_flags": (R + "scan_data_flags::ScanDataFlags", "rda_scan_and_data_flags"),
            "rda_alarm_summary": (R + "alarm::summary::Summary", "rda_alarm_summary")}
ALARM_FN = R + "alarm::definitions::get_alarm_message"
ALARM_MSG = R + "alarm::model::Message"


def non_panic_leaves(t):
    return [x for x in sym._leaves(t, []) if not (isinstance(x, tuple) and x and x[0] in ("panic", "unreachable"))]


def decoder(chk, prog):
    """the status decoder hands back exactly what deserializing the 60-halfword struct gives: nothing is rejected, nothing
    is rewritten after decoding"""
    p = "nexrad_decode::messages::rda_status_data::decode_rda_status_message"
    ev = sym.Evaluator(prog, opaque_local=["nexrad_decode::util::deserialize"])
    t, fn = eval_or_blind(chk, ev, "R-WIRE", p, [P("reader")])
    if t is None:
        return
    d = ("call", "nexrad_decode::util::deserialize::<%s>" % MSG, (P("reader"),))
    okk = t == d or sym.sem_eq(t, d) or sym.sem_eq(t, sym.res_match(d, lambda x: ok(x), lambda e: err(e)))
    chk.ob("R-WIRE", p, okk, "the decoder returns deserialize::<Message>(reader) itself" if okk else
           "the decoder does not return the deserialized message as it is: %s" % show(t)[:240], fn.where(), key="decoder-identity")


def run(chk, tier):
    prog, info = common.program("all")
    common.note_extraction(chk, info, prog)
    common.vacuity(chk, ['VN-bits', 'R-TABLE', 'R-WIRE'])
    chk.explanation = ("R-LAYOUT: the 60 halfwords of ICD table IV row by row (signedness included). Value numbering reduces each coded accessor to a decision "
                       "table evaluated at each documented code, each flag accessor to a per-bit provenance vector, the scaled accessors to canonical terms, "
                       "and get_alarm_message to a partition of u16 whose every cell in 0..=800 yields a definition carrying the cell's own code and every "
                       "cell above yields None; alarm_messages is the order-preserving chain iter -> filter(!= 0) -> filter_map(lookup) -> collect.")
    chk.trust("serde_derive/bincode encoding; iterator adaptors filter/filter_map/collect preserve order")
    chk.assume("'documented' codes and bits are those of the table frozen from the pinned tree (DESIGN §3 C12 oracle note: four doc/code disagreements are observations, not findings)")
    layout.check_struct(chk, prog, MSG)
    decoder(chk, prog)
    ev = sym.Evaluator(prog)

    # ---- coded accessors at their documented codes
    n = 0
    for acc, (enum, codes) in CODED.items():
        got, fn = eval_or_blind(chk, ev, "VN", MSG + "::" + acc)
        if got is None:
            continue
        seen = set()
        for code, name in codes.items():
            n += 1
            v = common.at_point(got, F(acc), C(code, "u16"))
            expect(chk, "R-TABLE", MSG + "::" + acc, v, unit_variant(DEF + enum, name), fn.where(), "code %d" % code)
            seen.add(name)
        chk.ob("R-TABLE", MSG + "::" + acc, len(seen) == len(codes), "distinct codes give distinct meanings", fn.where(), key="injective")
    got, fn = eval_or_blind(chk, ev, "VN", MSG + "::command_acknowledgement")
    if got is not None:
        want = table(F("command_acknowledgement"), "u16", [(c, some(unit_variant(DEF + "CommandAcknowledgement", nm))) for c, nm in CMD_ACK.items()], NONE)
        expect(chk, "R-TABLE", MSG + "::command_acknowledgement", got, want, fn.where(), "command acknowledgement codes")
        n += 4
    chk.floor("coded accessor cells", n, 42)

    # ---- clutter mitigation decision status
    got, fn = eval_or_blind(chk, ev, "VN", MSG + "::clutter_mitigation_decision_status")
    if got is not None:
        CM = DEF + "ClutterMitigationDecisionStatus"
        f = F("clutter_mitigation_decision_status")
        expect(chk, "R-TABLE", MSG + "::clutter_mitigation_decision_status", common.at_point(got, f, C(0, "u16")), unit_variant(CM, "Disabled"), fn.where(), "code 0")
        expect(chk, "R-TABLE", MSG + "::clutter_mitigation_decision_status", common.at_point(got, f, C(1, "u16")), unit_variant(CM, "Enabled"), fn.where(), "code 1")
        other = [x for rs, x in (got[3] if got[0] == "cases" else ()) if any(lo <= 2 <= hi for lo, hi in rs)]
        okk = False
        detail = "no arm for codes >= 2"
        if other and other[0][0] == "adt" and other[0][2] == "BypassMapElevationSegments":
            chain = push_chain(other[0][3][0][1])
            want = [((f, i), C(i, "u8")) for i in range(5)]
            okk = chain == want
            detail = "segments = [i for i in 0..5 if bit i set]" if okk else "segment list is built as %s" % (chain,)
        chk.ob("VN", MSG + "::clutter_mitigation_decision_status", okk, detail, fn.where(), key="segments")

    # ---- flag words
    nf = 0
    for owner, bits in FLAGS.items():
        for acc, bit in bits.items():
            got, fn = eval_or_blind(chk, ev, "VN", owner + "::" + acc)
            if got is None:
                continue
            nf += 1
            provs = {repr(sym.bits_of(x, 16)) for x in non_panic_leaves(got)}
            want = repr([(F("0"), bit)])
            chk.ob("VN", owner + "::" + acc, provs == {want}, "returned value is exactly bit %d of the flag word" % bit if provs == {want} else
                   "returned value's bit provenance is %s, documented bit %d" % (sorted(provs), bit), fn.where(), key="bit")
    got, fn = eval_or_blind(chk, ev, "VN", R + "alarm::summary::Summary::none")
    if got is not None:
        expect(chk, "VN", R + "alarm::summary::Summary::none", got, eq_c(F("0"), "u16", 0), fn.where(), "none <=> whole word is zero")
        nf += 1
    got, fn = eval_or_blind(chk, ev, "VN", MSG + "::controlling_channel")
    if got is not None:
        b = sym.bits_of(got, 16)
        chk.ob("VN", MSG + "::controlling_channel", b == [(F("channel_control_status"), 0)], "controlling_channel is bit 0 of channel_control_status (found %s)" % (b,), fn.where(), key="bit")
        nf += 1
    chk.floor("flag accessors", nf, 17)
    for acc, (adt_path, field) in WRAPPERS.items():
        got, fn = eval_or_blind(chk, ev, "R-WIRE", MSG + "::" + acc)
        if got is not None:
            expect(chk, "R-WIRE", MSG + "::" + acc, got, adt(adt_path, adt_path.split("::")[-1], (("0", F(field)),)), fn.where(), "wraps halfword `%s`" % field)

    # ---- scaled values and the VCP sign rule
    x = cast(F("horizontal_reflectivity_calibration_correction"), "u16", "f32")
    got, fn = eval_or_blind(chk, ev, "VN", MSG + "::horizontal_reflectivity_calibration_correction")
    if got is not None:
        expect(chk, "VN", MSG + "::horizontal_reflectivity_calibration_correction", got, binop("Div", x, C(100.0, "f32"), "f32"), fn.where(), "raw / 100")
    b = cast(F("rda_build_number"), "u16", "f32")
    got, fn = eval_or_blind(chk, ev, "VN", MSG + "::rda_build_number")
    if got is not None:
        h = binop("Div", b, C(100.0, "f32"), "f32")
        want = ite(binop("Gt", h, C(2.0, "f32"), "f32"), h, binop("Div", b, C(10.0, "f32"), "f32"))
        expect(chk, "VN", MSG + "::rda_build_number", got, want, fn.where(), "raw/100 when that exceeds 2, else raw/10")
    V = R + "volume_coverage_pattern::VolumeCoveragePatternNumber"
    got, fn = eval_or_blind(chk, ev, "VN", MSG + "::volume_coverage_pattern")
    if got is not None:
        v = F("volume_coverage_pattern")
        expect(chk, "VN", MSG + "::volume_coverage_pattern", got, ite(eq_c(v, "i16", 0), NONE, some(adt(V, "VolumeCoveragePatternNumber", (("0", v),)))), fn.where(), "None iff 0, else the signed halfword")
    for acc, want in (("number", ("un", "abs", F("0"), "i16")), ("local", in_range(F("0"), "i16", -32768, -1)), ("remote", in_range(F("0"), "i16", 1, 32767))):
        got, fn = eval_or_blind(chk, ev, "VN", V + "::" + acc)
        if got is not None:
            expect(chk, "VN", V + "::" + acc, got, want, fn.where(), "VCP %s" % acc)

    # ---- the two map-generation date-time accessors read their own date and time halfwords (the closed form is C08's)
    from rules import c08
    from nx import chrono_model as cm
    evc = cm.evaluator(prog)
    nd = 0
    for acc in (c08.D + "rda_status_data::message::Message::bypass_map_generation_date_time",
                c08.D + "rda_status_data::message::Message::clutter_filter_map_generation_date_time"):
        nd += c08.accessor(chk, prog, evc, acc)
    chk.floor("map-generation date-time accessors", nd, 2)
    # ---- alarm table
    got, fn = eval_or_blind(chk, ev, "VN", ALARM_FN, [P("code")])
    if got is not None:
        cells = 0
        covered = []
        bad = []
        arms = got[3] if got[0] == "cases" and got[1] == P("code") else None
        if arms is None:
            chk.ob("R-TABLE", ALARM_FN, False, "lookup is not a decision table on its argument", fn.where(), key="shape")
        else:
            for rs, leaf in arms:
                if leaf == NONE:
                    continue
                for lo, hi in rs:
                    cells += 1
                    covered.append((lo, hi))
                    okk = leaf[0] == "adt" and leaf[2] == "Some" and leaf[3][0][1][0] == "adt" and leaf[3][0][1][1] == ALARM_MSG
                    if okk:
                        cv = fld(leaf[3][0][1], "code")
                        okk = (cv == P("code")) or (lo == hi and cv == C(lo, "u16"))
                    if not okk:
                        bad.append((lo, hi))
            cov = sym.rs_norm(covered)
            chk.ob("R-TABLE", ALARM_FN, cov == ((0, 800),), "definitions exist exactly for codes %s (must be 0..=800)" % rs_show(cov), fn.where(), key="domain")
            chk.ob("R-TABLE", ALARM_FN, not bad, "every definition carries the code it is looked up by" if not bad else
                   "cells whose definition carries a different code: %s" % rs_show(tuple(bad[:8])), fn.where(), key="code=key")
            chk.floor("alarm table cells", cells, 300)
    got, fn = eval_or_blind(chk, ev, "R-WIRE", ALARM_MSG + "::code")
    if got is not None:
        expect(chk, "R-WIRE", ALARM_MSG + "::code", got, F("code"), fn.where(), "code() returns the stored code")

    # ---- alarm_messages: order-preserving chain over alarm_codes
    ev2 = sym.Evaluator(prog, opaque_local=[ALARM_FN])
    got, fn = eval_or_blind(chk, ev2, "VN", MSG + "::alarm_messages")
    if got is not None:
        look = ("call", ALARM_FN, (sym.ELEM,))
        want = ("seq", F("alarm_codes"), (("filter", sym.ELEM, mk_not(eq_c(sym.ELEM, "u16", 0))), ("filtermap", sym.ELEM, look)), ("vfld", look, "Some", "0"))
        expect(chk, "VN", MSG + "::alarm_messages", got, want, fn.where(), "alarm_codes -> filter(!= 0) -> filter_map(lookup) -> collect")


def push_chain(t):
    """[(bit provenance of the guard, pushed value)] of a vector built by conditional pushes in sequence, or by a
    filter/collect (comprehension) over a constant range"""
    c = sym.comp_of(t)
    if c is not None:
        src, g = c[1], c[2]
        if not (src[0] == "adt" and src[1] == "core::ops::range::Range" and sym.is_c(fld(src, "start")) and sym.is_c(fld(src, "end"))):
            return None
        out = []
        for i in range(fld(src, "start")[1], fld(src, "end")[1]):
            gi = sym.rebuild(g, {sym.ELEM: C(i, fld(src, "start")[2])})
            # gi: Some(value) under a one-bit guard, None otherwise
            if gi[0] == "adt" and gi[2] == "Some":
                out.append((1, gi[3][0][1]))
                continue
            if gi == NONE:
                continue
            if gi[0] == "ite":
                cond, a, b = gi[1], gi[2], gi[3]
            elif gi[0] == "cases" and len(gi[3]) == 2:
                cond = sym.mk_in(gi[1], gi[2], gi[3][1][0])
                a, b = gi[3][1][1], gi[3][0][1]
            else:
                return None
            bits = sym.bits_of(cond, 16)
            if bits is None or len(bits) != 1:
                return None
            gb = bits[0]
            if isinstance(gb, tuple) and gb and gb[0] == "not":
                gb = gb[1]
                a, b = b, a
            if not (a[0] == "adt" and a[2] == "Some" and b == NONE):
                return None
            out.append((gb, a[3][0][1]))
        return out
    out = []
    while True:
        if t[0] == "call" and t[1].startswith("alloc::vec::Vec::<T>::new"):
            break
        if t[0] in ("ite", "cases"):
            if t[0] == "ite":
                cond, a, b = t[1], t[2], t[3]
            else:
                if len(t[3]) != 2:
                    return None
                cond = sym.mk_in(t[1], t[2], t[3][1][0])
                a, b = t[3][1][1], t[3][0][1]
            bits = sym.bits_of(cond, 16)
            if bits is None or len(bits) != 1:
                return None
            g = bits[0]
            if isinstance(g, tuple) and g and g[0] == "not":
                g = g[1]
                a, b = b, a
            if not (a[0] == "mutated" and a[1].endswith("::push") and a[3][0] == b):
                return None
            out.append((g, a[3][1]))
            t = b
        elif t[0] == "mutated" and t[1].endswith("::push"):
            out.append((1, t[3][1]))
            t = t[3][0]
        else:
            return None
    out.reverse()
    return out
