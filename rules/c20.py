"""C20 — every feature combination of the four crates builds (E3: exhaustive type checking)."""
from nx import feat

LEVEL = "exploration"


def run(chk, tier):
    chk.explanation = ("The property is itself static: 'compiles' is the type checker's verdict. Every distinct resolved "
                       "feature set of each crate's feature powerset is type-checked with the stable toolchain via cargo check; "
                       "unexpected_cfgs diagnostics (a misspelt feature name silently removes code in every cell) are violations.")
    chk.trust("cargo feature resolution and rustc 1.95 type checking (the toolchain the property is about)")
    chk.assume("two feature selections with the same resolved feature set produce the same compilation (cargo passes --cfg feature per resolved feature)")
    if tier == "quick":
        chk.assume("quick tier only: configurations that agree on every feature named in a cfg predicate of the crate's sources compile alike; "
                   "a min and a max representative of each such class are checked (thorough checks all)")
    results = feat.run(chk, tier)
    chk.floor("configurations", len(results), 40 if tier == "quick" else 300)
