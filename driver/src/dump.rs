use crate::json::{opt, s, J};
use rustc_hir::def::DefKind;
use rustc_hir::def_id::{DefId, LocalDefId};
use rustc_middle::mir::{
    self, AggregateKind, AssertKind, BasicBlockData, Body, Const, Operand, Place, ProjectionElem,
    Rvalue, StatementKind, TerminatorKind,
};
use rustc_middle::ty::print::{with_no_trimmed_paths, with_no_visible_paths, with_resolve_crate_name};

macro_rules! pp {
    ($e:expr) => {
        with_no_visible_paths!(with_resolve_crate_name!(with_no_trimmed_paths!($e)))
    };
}
use rustc_middle::ty::{self, Ty, TyCtxt, TypeVisitableExt, TypingEnv};
use rustc_span::Span;

fn ty_str<'tcx>(t: Ty<'tcx>) -> String {
    pp!(t.to_string())
}

fn path<'tcx>(tcx: TyCtxt<'tcx>, d: DefId) -> String {
    pp!(tcx.def_path_str(d))
}

fn loc<'tcx>(tcx: TyCtxt<'tcx>, sp: Span) -> J {
    // the outermost call site (source position the user wrote), plus the macro backtrace
    let call = sp.source_callsite();
    let sm = tcx.sess.source_map();
    let lo = sm.lookup_char_pos(call.lo());
    let file = match &lo.file.name {
        rustc_span::FileName::Real(r) => match r.local_path() {
            Some(p) => p.to_string_lossy().to_string(),
            None => format!("{:?}", r),
        },
        o => format!("{:?}", o),
    };
    let mut macros = Vec::new();
    if sp.from_expansion() {
        for e in sp.macro_backtrace() {
            macros.push(s(format!("{}", e.kind.descr())));
        }
    }
    J::Obj(vec![
        ("file", s(file)),
        ("line", J::Int(lo.line as i128)),
        ("col", J::Int(lo.col.0 as i128 + 1)),
        ("exp", J::Arr(macros)),
    ])
}

/// Structured descriptor of a type, deep enough for layout rules.
fn ty_desc<'tcx>(tcx: TyCtxt<'tcx>, t: Ty<'tcx>, depth: usize) -> J {
    let mut v: Vec<(&'static str, J)> = vec![("s", s(ty_str(t)))];
    match t.kind() {
        ty::Bool => v.push(("k", s("bool"))),
        ty::Char => v.push(("k", s("char"))),
        ty::Int(i) => {
            v.push(("k", s("int")));
            v.push(("bits", J::Int(i.bit_width().unwrap_or(64) as i128)));
        }
        ty::Uint(u) => {
            v.push(("k", s("uint")));
            v.push(("bits", J::Int(u.bit_width().unwrap_or(64) as i128)));
        }
        ty::Float(f) => {
            v.push(("k", s("float")));
            v.push(("bits", J::Int(f.bit_width() as i128)));
        }
        ty::Array(e, n) => {
            v.push(("k", s("array")));
            v.push(("elem", ty_desc(tcx, *e, depth + 1)));
            let len = n.try_to_target_usize(tcx);
            v.push(("len", opt(len, |x| J::Int(x as i128))));
        }
        ty::Slice(e) => {
            v.push(("k", s("slice")));
            v.push(("elem", ty_desc(tcx, *e, depth + 1)));
        }
        ty::Ref(_, inner, m) => {
            v.push(("k", s("ref")));
            v.push(("mut", J::Bool(m.is_mut())));
            if depth < 4 {
                v.push(("elem", ty_desc(tcx, *inner, depth + 1)));
            }
        }
        ty::RawPtr(inner, m) => {
            v.push(("k", s("ptr")));
            v.push(("mut", J::Bool(m.is_mut())));
            if depth < 4 {
                v.push(("elem", ty_desc(tcx, *inner, depth + 1)));
            }
        }
        ty::Adt(def, args) => {
            v.push(("k", s("adt")));
            v.push(("adt", s(path(tcx, def.did()))));
            v.push(("local", J::Bool(def.did().is_local())));
            if depth < 4 {
                let mut a = Vec::new();
                for g in args.iter() {
                    if let Some(gt) = g.as_type() {
                        a.push(ty_desc(tcx, gt, depth + 1));
                    }
                }
                v.push(("args", J::Arr(a)));
            }
        }
        ty::Tuple(ts) => {
            v.push(("k", s("tuple")));
            if depth < 4 {
                v.push(("args", J::Arr(ts.iter().map(|x| ty_desc(tcx, x, depth + 1)).collect())));
            }
        }
        ty::FnDef(d, _) => {
            v.push(("k", s("fndef")));
            v.push(("def", s(path(tcx, *d))));
        }
        ty::Closure(d, _) => {
            v.push(("k", s("closure")));
            v.push(("def", s(path(tcx, *d))));
        }
        ty::Coroutine(d, _) => {
            v.push(("k", s("coroutine")));
            v.push(("def", s(path(tcx, *d))));
        }
        ty::CoroutineClosure(d, _) => {
            v.push(("k", s("coroutine_closure")));
            v.push(("def", s(path(tcx, *d))));
        }
        ty::Param(_) => v.push(("k", s("param"))),
        ty::Str => v.push(("k", s("str"))),
        ty::Never => v.push(("k", s("never"))),
        ty::Dynamic(..) => v.push(("k", s("dyn"))),
        ty::Alias(..) => v.push(("k", s("alias"))),
        _ => v.push(("k", s("other"))),
    }
    J::Obj(v)
}

fn place<'tcx>(tcx: TyCtxt<'tcx>, body: &Body<'tcx>, p: &Place<'tcx>) -> J {
    let mut proj = Vec::new();
    let mut cur = mir::PlaceTy::from_ty(body.local_decls[p.local].ty);
    for e in p.projection.iter() {
        let j = match e {
            ProjectionElem::Deref => s("*"),
            ProjectionElem::Field(f, fty) => {
                let mut name = J::Null;
                let mut owner = J::Null;
                if let ty::Adt(def, _) = cur.ty.kind() {
                    let vi = cur.variant_index.unwrap_or(rustc_abi::FIRST_VARIANT);
                    if vi.as_usize() < def.variants().len() {
                        let var = def.variant(vi);
                        if f.as_usize() < var.fields.len() {
                            name = s(var.fields[f].name.to_string());
                        }
                        owner = s(path(tcx, def.did()));
                    }
                }
                J::Obj(vec![
                    ("f", J::Int(f.as_usize() as i128)),
                    ("name", name),
                    ("of", owner),
                    ("ty", s(ty_str(fty))),
                ])
            }
            ProjectionElem::Index(l) => J::Obj(vec![("idx", J::Int(l.as_usize() as i128))]),
            ProjectionElem::ConstantIndex { offset, min_length, from_end } => J::Obj(vec![
                ("cidx", J::Int(offset as i128)),
                ("min", J::Int(min_length as i128)),
                ("from_end", J::Bool(from_end)),
            ]),
            ProjectionElem::Subslice { from, to, from_end } => J::Obj(vec![
                ("sub", J::Int(from as i128)),
                ("to", J::Int(to as i128)),
                ("from_end", J::Bool(from_end)),
            ]),
            ProjectionElem::Downcast(name, vi) => J::Obj(vec![
                ("down", J::Int(vi.as_usize() as i128)),
                ("name", opt(name, |n| s(n.to_string()))),
            ]),
            ProjectionElem::OpaqueCast(t) => J::Obj(vec![("opaque", s(ty_str(t)))]),
            ProjectionElem::UnwrapUnsafeBinder(t) => J::Obj(vec![("unbind", s(ty_str(t)))]),
        };
        proj.push(j);
        cur = cur.projection_ty(tcx, e);
    }
    J::Obj(vec![("l", J::Int(p.local.as_usize() as i128)), ("p", J::Arr(proj))])
}

fn scalar_int<'tcx>(tcx: TyCtxt<'tcx>, env: TypingEnv<'tcx>, c: &Const<'tcx>) -> Option<(i128, u64)> {
    let t = c.ty();
    if !(t.is_integral() || t.is_bool() || t.is_char() || t.is_floating_point()) {
        return None;
    }
    let si = c.try_eval_scalar_int(tcx, env)?;
    let size = si.size();
    let raw: u128 = si.to_bits(size);
    let v: i128 = if t.is_signed() {
        si.to_int(size)
    } else if raw > i128::MAX as u128 {
        return None;
    } else {
        raw as i128
    };
    Some((v, size.bits()))
}

fn const_str<'tcx>(tcx: TyCtxt<'tcx>, env: TypingEnv<'tcx>, c: &Const<'tcx>) -> Option<String> {
    // &'static str constants
    let t = c.ty();
    if let ty::Ref(_, inner, _) = t.kind() {
        if inner.is_str() {
            if let Some(val) = c.eval(tcx, env, rustc_span::DUMMY_SP).ok() {
                if let Some(bytes) = val.try_get_slice_bytes_for_diagnostics(tcx) {
                    return Some(String::from_utf8_lossy(bytes).to_string());
                }
            }
        }
    }
    None
}

fn constant<'tcx>(tcx: TyCtxt<'tcx>, env: TypingEnv<'tcx>, c: &mir::ConstOperand<'tcx>) -> J {
    let k = &c.const_;
    let t = k.ty();
    let mut v: Vec<(&'static str, J)> = vec![("k", s("const")), ("ty", s(ty_str(t)))];
    v.push(("pp", s(pp!(format!("{}", k)))));
    match t.kind() {
        ty::FnDef(d, args) => {
            v.push(("fn", s(path(tcx, *d))));
            v.push(("args", J::Arr(args.iter().map(|a| s(pp!(format!("{}", a)))).collect())));
        }
        _ => {
            if let Some((i, bits)) = scalar_int(tcx, env, k) {
                v.push(("int", J::Int(i)));
                v.push(("bits", J::Int(bits as i128)));
                if t.is_floating_point() {
                    let f = if bits == 32 {
                        f32::from_bits(i as u32) as f64
                    } else {
                        f64::from_bits(i as u64)
                    };
                    v.push(("float", s(format!("{:?}", f))));
                }
            } else if let Some(st) = const_str(tcx, env, k) {
                v.push(("str", s(st)));
            }
            if let Const::Unevaluated(u, _) = k {
                v.push(("uneval", s(path(tcx, u.def))));
                if let Some(p) = u.promoted {
                    v.push(("promoted", J::Int(p.as_usize() as i128)));
                }
            }
        }
    }
    J::Obj(v)
}

fn operand<'tcx>(tcx: TyCtxt<'tcx>, env: TypingEnv<'tcx>, body: &Body<'tcx>, o: &Operand<'tcx>) -> J {
    match o {
        Operand::Copy(p) => J::Obj(vec![("k", s("copy")), ("pl", place(tcx, body, p))]),
        Operand::Move(p) => J::Obj(vec![("k", s("move")), ("pl", place(tcx, body, p))]),
        Operand::Constant(c) => constant(tcx, env, c),
        #[allow(unreachable_patterns)]
        _ => J::Obj(vec![("k", s("other")), ("pp", s(format!("{:?}", o)))]),
    }
}

fn rvalue<'tcx>(tcx: TyCtxt<'tcx>, env: TypingEnv<'tcx>, body: &Body<'tcx>, r: &Rvalue<'tcx>) -> J {
    let op = |o: &Operand<'tcx>| operand(tcx, env, body, o);
    match r {
        Rvalue::Use(o, _) => J::Obj(vec![("rv", s("use")), ("a", op(o))]),
        Rvalue::Repeat(o, n) => J::Obj(vec![
            ("rv", s("repeat")),
            ("a", op(o)),
            ("n", opt(n.try_to_target_usize(tcx), |x| J::Int(x as i128))),
        ]),
        Rvalue::Ref(_, bk, p) => J::Obj(vec![
            ("rv", s("ref")),
            ("bk", s(format!("{:?}", bk))),
            ("pl", place(tcx, body, p)),
        ]),
        Rvalue::RawPtr(k, p) => J::Obj(vec![
            ("rv", s("rawptr")),
            ("bk", s(format!("{:?}", k))),
            ("pl", place(tcx, body, p)),
        ]),
        Rvalue::Cast(k, o, t) => J::Obj(vec![
            ("rv", s("cast")),
            ("ck", s(format!("{:?}", k))),
            ("a", op(o)),
            ("ty", ty_desc(tcx, *t, 3)),
            ("from", ty_desc(tcx, o.ty(body, tcx), 3)),
        ]),
        Rvalue::BinaryOp(b, ab) => J::Obj(vec![
            ("rv", s("bin")),
            ("op", s(format!("{:?}", b))),
            ("a", op(&ab.0)),
            ("b", op(&ab.1)),
            ("ty", s(ty_str(ab.0.ty(body, tcx)))),
        ]),
        Rvalue::UnaryOp(u, o) => J::Obj(vec![
            ("rv", s("un")),
            ("op", s(format!("{:?}", u))),
            ("a", op(o)),
            ("ty", s(ty_str(o.ty(body, tcx)))),
        ]),
        Rvalue::Discriminant(p) => J::Obj(vec![("rv", s("discr")), ("pl", place(tcx, body, p))]),
        Rvalue::Aggregate(k, ops) => {
            let mut v: Vec<(&'static str, J)> = vec![("rv", s("agg"))];
            match &**k {
                AggregateKind::Array(t) => {
                    v.push(("ak", s("array")));
                    v.push(("ty", s(ty_str(*t))));
                }
                AggregateKind::Tuple => v.push(("ak", s("tuple"))),
                AggregateKind::Adt(d, vi, _, _, active) => {
                    v.push(("ak", s("adt")));
                    v.push(("adt", s(path(tcx, *d))));
                    v.push(("variant", J::Int(vi.as_usize() as i128)));
                    let def = tcx.adt_def(*d);
                    let var = def.variant(*vi);
                    v.push(("vname", s(var.name.to_string())));
                    v.push(("fields", J::Arr(var.fields.iter().map(|f| s(f.name.to_string())).collect())));
                    if let Some(a) = active {
                        v.push(("active", J::Int(a.as_usize() as i128)));
                    }
                }
                AggregateKind::Closure(d, _) => {
                    v.push(("ak", s("closure")));
                    v.push(("def", s(path(tcx, *d))));
                }
                AggregateKind::Coroutine(d, _) => {
                    v.push(("ak", s("coroutine")));
                    v.push(("def", s(path(tcx, *d))));
                }
                AggregateKind::CoroutineClosure(d, _) => {
                    v.push(("ak", s("coroutine_closure")));
                    v.push(("def", s(path(tcx, *d))));
                }
                AggregateKind::RawPtr(..) => v.push(("ak", s("rawptr"))),
            }
            v.push(("ops", J::Arr(ops.iter().map(|o| op(o)).collect())));
            J::Obj(v)
        }
        Rvalue::CopyForDeref(p) => J::Obj(vec![
            ("rv", s("use")),
            ("a", J::Obj(vec![("k", s("copy")), ("pl", place(tcx, body, p))])),
        ]),
        other => J::Obj(vec![("rv", s("other")), ("pp", s(format!("{:?}", other)))]),
    }
}

fn assert_kind<'tcx>(tcx: TyCtxt<'tcx>, env: TypingEnv<'tcx>, body: &Body<'tcx>, m: &AssertKind<Operand<'tcx>>) -> J {
    let op = |o: &Operand<'tcx>| operand(tcx, env, body, o);
    match m {
        AssertKind::BoundsCheck { len, index } => {
            J::Obj(vec![("ak", s("BoundsCheck")), ("len", op(len)), ("index", op(index))])
        }
        AssertKind::Overflow(b, l, r) => J::Obj(vec![
            ("ak", s("Overflow")),
            ("op", s(format!("{:?}", b))),
            ("a", op(l)),
            ("b", op(r)),
        ]),
        AssertKind::OverflowNeg(o) => J::Obj(vec![("ak", s("OverflowNeg")), ("a", op(o))]),
        AssertKind::DivisionByZero(o) => J::Obj(vec![("ak", s("DivisionByZero")), ("a", op(o))]),
        AssertKind::RemainderByZero(o) => J::Obj(vec![("ak", s("RemainderByZero")), ("a", op(o))]),
        AssertKind::ResumedAfterReturn(_) => J::Obj(vec![("ak", s("ResumedAfterReturn"))]),
        AssertKind::ResumedAfterPanic(_) => J::Obj(vec![("ak", s("ResumedAfterPanic"))]),
        AssertKind::ResumedAfterDrop(_) => J::Obj(vec![("ak", s("ResumedAfterDrop"))]),
        other => J::Obj(vec![("ak", s("Other")), ("pp", s(format!("{:?}", other)))]),
    }
}

fn bbj(b: mir::BasicBlock) -> J {
    J::Int(b.as_usize() as i128)
}

fn unwind(u: &mir::UnwindAction) -> J {
    match u {
        mir::UnwindAction::Cleanup(b) => bbj(*b),
        _ => J::Null,
    }
}

fn terminator<'tcx>(
    tcx: TyCtxt<'tcx>,
    env: TypingEnv<'tcx>,
    body: &Body<'tcx>,
    t: &mir::Terminator<'tcx>,
) -> J {
    let op = |o: &Operand<'tcx>| operand(tcx, env, body, o);
    let mut v: Vec<(&'static str, J)> = Vec::new();
    match &t.kind {
        TerminatorKind::Goto { target } => {
            v.push(("t", s("goto")));
            v.push(("target", bbj(*target)));
        }
        TerminatorKind::SwitchInt { discr, targets } => {
            v.push(("t", s("switch")));
            v.push(("discr", op(discr)));
            v.push(("dty", s(ty_str(discr.ty(body, tcx)))));
            let mut arms = Vec::new();
            for (val, bb) in targets.iter() {
                arms.push(J::Arr(vec![J::Int(val as i128), bbj(bb)]));
            }
            v.push(("arms", J::Arr(arms)));
            v.push(("otherwise", bbj(targets.otherwise())));
        }
        TerminatorKind::UnwindResume => v.push(("t", s("resume"))),
        TerminatorKind::UnwindTerminate(_) => v.push(("t", s("terminate"))),
        TerminatorKind::Return => v.push(("t", s("return"))),
        TerminatorKind::Unreachable => v.push(("t", s("unreachable"))),
        TerminatorKind::Drop { place: p, target, unwind: u, .. } => {
            v.push(("t", s("drop")));
            v.push(("pl", place(tcx, body, p)));
            v.push(("target", bbj(*target)));
            v.push(("unwind", unwind(u)));
        }
        TerminatorKind::Call { func, args, destination, target, unwind: u, fn_span, .. } => {
            v.push(("t", s("call")));
            v.push(("func", op(func)));
            let fty = func.ty(body, tcx);
            if let ty::FnDef(d, ga) = fty.kind() {
                v.push(("callee", s(path(tcx, *d))));
                v.push(("local", J::Bool(d.is_local())));
                v.push(("krate", s(tcx.crate_name(d.krate).to_string())));
                let mut tys = Vec::new();
                for g in ga.iter() {
                    if let Some(gt) = g.as_type() {
                        let mut d = vec![("d", ty_desc(tcx, gt, 2))];
                        // layout size when monomorphic (used for size_of::<T>())
                        if !gt.has_non_region_param() {
                            if let Ok(l) = tcx.layout_of(env.as_query_input(gt)) {
                                d.push(("size", J::Int(l.size.bytes() as i128)));
                            }
                        }
                        tys.push(J::Obj(d));
                    }
                }
                v.push(("targs", J::Arr(tys)));
                // resolve trait method calls to their impl where possible
                if let Ok(Some(inst)) = ty::Instance::try_resolve(tcx, env, *d, ga) {
                    let rd = inst.def_id();
                    if rd != *d {
                        v.push(("resolved", s(path(tcx, rd))));
                        v.push(("resolved_local", J::Bool(rd.is_local())));
                    }
                }
                if let Some(tr) = tcx.trait_of_assoc(*d) {
                    v.push(("trait", s(path(tcx, tr))));
                }
            }
            v.push(("args", J::Arr(args.iter().map(|a| op(&a.node)).collect())));
            v.push(("dest", place(tcx, body, destination)));
            v.push(("target", opt(*target, bbj)));
            v.push(("unwind", unwind(u)));
            v.push(("fn_loc", loc(tcx, *fn_span)));
        }
        TerminatorKind::Assert { cond, expected, msg, target, unwind: u } => {
            v.push(("t", s("assert")));
            v.push(("cond", op(cond)));
            v.push(("expected", J::Bool(*expected)));
            v.push(("msg", assert_kind(tcx, env, body, msg)));
            v.push(("target", bbj(*target)));
            v.push(("unwind", unwind(u)));
        }
        TerminatorKind::Yield { value, resume, resume_arg, drop } => {
            v.push(("t", s("yield")));
            v.push(("value", op(value)));
            v.push(("target", bbj(*resume)));
            v.push(("resume_arg", place(tcx, body, resume_arg)));
            v.push(("drop", opt(*drop, bbj)));
        }
        TerminatorKind::CoroutineDrop => v.push(("t", s("coroutine_drop"))),
        TerminatorKind::FalseEdge { real_target, imaginary_target } => {
            v.push(("t", s("goto")));
            v.push(("target", bbj(*real_target)));
            v.push(("imaginary", bbj(*imaginary_target)));
        }
        TerminatorKind::FalseUnwind { real_target, .. } => {
            v.push(("t", s("goto")));
            v.push(("target", bbj(*real_target)));
            v.push(("false_unwind", J::Bool(true)));
        }
        other => {
            v.push(("t", s("other")));
            v.push(("pp", s(format!("{:?}", other))));
        }
    }
    v.push(("loc", loc(tcx, t.source_info.span)));
    J::Obj(v)
}

fn block<'tcx>(tcx: TyCtxt<'tcx>, env: TypingEnv<'tcx>, body: &Body<'tcx>, b: &BasicBlockData<'tcx>) -> J {
    let mut stmts = Vec::new();
    for st in &b.statements {
        let j = match &st.kind {
            StatementKind::Assign(bx) => {
                let (p, r) = &**bx;
                let mut o = vec![("s", s("assign")), ("dst", place(tcx, body, p))];
                if let J::Obj(rv) = rvalue(tcx, env, body, r) {
                    o.extend(rv);
                }
                o.push(("loc", loc(tcx, st.source_info.span)));
                J::Obj(o)
            }
            StatementKind::SetDiscriminant { place: p, variant_index } => J::Obj(vec![
                ("s", s("setdiscr")),
                ("dst", place(tcx, body, p)),
                ("variant", J::Int(variant_index.as_usize() as i128)),
            ]),
            StatementKind::StorageLive(_)
            | StatementKind::StorageDead(_)
            | StatementKind::Nop
            | StatementKind::FakeRead(..)
            | StatementKind::PlaceMention(..)
            | StatementKind::AscribeUserType(..)
            | StatementKind::Coverage(..)
            | StatementKind::ConstEvalCounter
            | StatementKind::BackwardIncompatibleDropHint { .. } => continue,
            other => J::Obj(vec![("s", s("other")), ("pp", s(format!("{:?}", other)))]),
        };
        stmts.push(j);
    }
    J::Obj(vec![
        ("cleanup", J::Bool(b.is_cleanup)),
        ("stmts", J::Arr(stmts)),
        ("term", opt(b.terminator.as_ref(), |t| terminator(tcx, env, body, t))),
    ])
}

fn body_json<'tcx>(tcx: TyCtxt<'tcx>, def: LocalDefId, body: &Body<'tcx>) -> Vec<(&'static str, J)> {
    let env = TypingEnv::post_analysis(tcx, def);
    let mut names: Vec<Option<String>> = vec![None; body.local_decls.len()];
    for vdi in &body.var_debug_info {
        if let mir::VarDebugInfoContents::Place(p) = &vdi.value {
            if p.projection.is_empty() {
                names[p.local.as_usize()] = Some(vdi.name.to_string());
            }
        }
    }
    // captured upvars of closures/coroutines: debuginfo name -> projection on _1
    let mut upvars = Vec::new();
    for vdi in &body.var_debug_info {
        if let mir::VarDebugInfoContents::Place(p) = &vdi.value {
            if !p.projection.is_empty() {
                upvars.push(J::Obj(vec![("name", s(vdi.name.to_string())), ("pl", place(tcx, body, p))]));
            }
        }
    }
    let locals: Vec<J> = body
        .local_decls
        .iter_enumerated()
        .map(|(l, d)| {
            J::Obj(vec![
                ("ty", ty_desc(tcx, d.ty, 1)),
                ("name", opt(names[l.as_usize()].clone(), s)),
                ("mut", J::Bool(d.mutability.is_mut())),
                ("user", J::Bool(matches!(d.local_info, mir::ClearCrossCrate::Set(_)) && d.is_user_variable())),
            ])
        })
        .collect();
    let blocks: Vec<J> = body.basic_blocks.iter().map(|b| block(tcx, env, body, b)).collect();
    vec![
        ("arg_count", J::Int(body.arg_count as i128)),
        ("locals", J::Arr(locals)),
        ("upvars", J::Arr(upvars)),
        ("blocks", J::Arr(blocks)),
        ("phase", s(format!("{:?}", body.phase))),
        ("coroutine", J::Bool(body.coroutine.is_some())),
    ]
}

fn vis<'tcx>(tcx: TyCtxt<'tcx>, d: DefId) -> J {
    match tcx.def_kind(d) {
        DefKind::Fn | DefKind::AssocFn | DefKind::Struct | DefKind::Enum | DefKind::Const { .. } | DefKind::AssocConst { .. }
        | DefKind::Static { .. } => {
            let v = tcx.visibility(d);
            s(if v.is_public() { "pub".to_string() } else { format!("{:?}", v) })
        }
        _ => J::Null,
    }
}

fn attrs_of<'tcx>(tcx: TyCtxt<'tcx>, d: DefId) -> J {
    // names of inert tool/derive-helper attributes (e.g. `serde`) and docs are skipped
    let mut v = Vec::new();
    if let Some(l) = d.as_local() {
        let hir_id = tcx.local_def_id_to_hir_id(l);
        for a in tcx.hir_attrs(hir_id) {
            let txt = format!("{:?}", a);
            if txt.contains("DocComment") {
                continue;
            }
            let mut t = txt;
            t.truncate(300);
            v.push(s(t));
        }
    }
    J::Arr(v)
}

pub fn dump_crate<'tcx>(tcx: TyCtxt<'tcx>) {
    let krate = tcx.crate_name(rustc_hir::def_id::LOCAL_CRATE).to_string();
    let wanted = std::env::var("NXFACTS_CRATES")
        .unwrap_or_else(|_| "nexrad,nexrad_model,nexrad_decode,nexrad_data,nxwitness".to_string());
    if !wanted.split(',').any(|w| w == krate) {
        return;
    }
    let out_dir = match std::env::var("NXFACTS_OUT") {
        Ok(d) => d,
        Err(_) => return,
    };
    // only library targets (skip build scripts, examples, tests)
    let is_lib = tcx.crate_types().iter().any(|t| {
        matches!(t, rustc_session::config::CrateType::Rlib)
    });
    if !is_lib {
        return;
    }
    let bodies = collect_bodies(tcx);
    let run_id = std::env::var("NXFACTS_RUN").unwrap_or_default();
    let mut out = String::new();
    let mut emit = |j: J| {
        j.write(&mut out);
        out.push('\n');
    };
    let cfgs: Vec<J> = tcx
        .sess
        .config
        .iter()
        .filter(|(k, _)| k.as_str() == "feature")
        .map(|(_, v)| opt(v.as_ref(), |x| s(x.to_string())))
        .collect();
    emit(J::Obj(vec![
        ("fact", s("crate")),
        ("name", s(krate.clone())),
        ("run", s(run_id)),
        ("features", J::Arr(cfgs)),
    ]));

    // ---- ADTs, impls, consts
    let items = tcx.hir_crate_items(());
    for id in items.definitions() {
        let d = id.to_def_id();
        match tcx.def_kind(d) {
            DefKind::Struct | DefKind::Enum | DefKind::Union => {
                let def = tcx.adt_def(d);
                let mut variants = Vec::new();
                for (vi, var) in def.variants().iter_enumerated() {
                    let discr = if def.is_enum() {
                        let dv = def.discriminant_for_variant(tcx, vi);
                        J::Int(dv.val as i128)
                    } else {
                        J::Null
                    };
                    let fields: Vec<J> = var
                        .fields
                        .iter()
                        .map(|f| {
                            let fty = tcx.type_of(f.did).instantiate_identity().skip_norm_wip();
                            J::Obj(vec![
                                ("name", s(f.name.to_string())),
                                ("ty", ty_desc(tcx, fty, 0)),
                                ("pub", J::Bool(f.vis.is_public())),
                                ("attrs", attrs_of(tcx, f.did)),
                            ])
                        })
                        .collect();
                    variants.push(J::Obj(vec![
                        ("name", s(var.name.to_string())),
                        ("discr", discr),
                        ("fields", J::Arr(fields)),
                    ]));
                }
                let adt_ty = tcx.type_of(d).instantiate_identity().skip_norm_wip();
                let mut size = J::Null;
                let mut align = J::Null;
                if !adt_ty.has_non_region_param() {
                    let env = TypingEnv::post_analysis(tcx, d);
                    if let Ok(l) = tcx.layout_of(env.as_query_input(adt_ty)) {
                        size = J::Int(l.size.bytes() as i128);
                        align = J::Int(l.align.abi.bytes() as i128);
                    }
                }
                emit(J::Obj(vec![
                    ("fact", s("adt")),
                    ("path", s(path(tcx, d))),
                    ("kind", s(format!("{:?}", tcx.def_kind(d)))),
                    ("repr", s(format!("{:?}", def.repr()))),
                    ("repr_c", J::Bool(def.repr().c())),
                    ("vis", vis(tcx, d)),
                    ("variants", J::Arr(variants)),
                    ("size", size),
                    ("align", align),
                    ("attrs", attrs_of(tcx, d)),
                    ("loc", loc(tcx, tcx.def_span(d))),
                ]));
            }
            DefKind::Impl { of_trait } => {
                let self_ty = tcx.type_of(d).instantiate_identity().skip_norm_wip();
                let tr = if of_trait {
                    let t = tcx.impl_trait_ref(d).instantiate_identity().skip_norm_wip();
                    s(path(tcx, t.def_id))
                } else {
                    J::Null
                };
                emit(J::Obj(vec![
                    ("fact", s("impl")),
                    ("self", ty_desc(tcx, self_ty, 2)),
                    ("trait", tr),
                    ("derived", J::Bool(tcx.def_span(d).from_expansion())),
                    ("loc", loc(tcx, tcx.def_span(d))),
                ]));
            }
            DefKind::Const { .. } | DefKind::AssocConst { .. } => {
                let t = tcx.type_of(d).instantiate_identity().skip_norm_wip();
                let mut v = vec![("fact", s("const")), ("path", s(path(tcx, d))), ("ty", s(ty_str(t)))];
                if !t.has_non_region_param() && (t.is_integral() || t.is_bool()) {
                    if let Ok(val) = tcx.const_eval_poly(d) {
                        if let Some(si) = val.try_to_scalar_int() {
                            let size = si.size();
                            let i: i128 = if t.is_signed() { si.to_int(size) } else { si.to_bits(size) as i128 };
                            v.push(("int", J::Int(i)));
                        }
                    }
                }
                emit(J::Obj(v));
            }
            _ => {}
        }
    }

    // ---- bodies (cloned up front in `collect_bodies`, before any query could steal them)
    for (def, body, promoted) in bodies.iter() {
        let def = *def;
        let d = def.to_def_id();
        let kind = tcx.def_kind(d);
        let mut v: Vec<(&'static str, J)> = vec![
            ("fact", s("fn")),
            ("path", s(path(tcx, d))),
            ("kind", s(format!("{:?}", kind))),
            ("vis", vis(tcx, d)),
            ("parent", s(path(tcx, tcx.typeck_root_def_id(d)))),
            ("loc", loc(tcx, tcx.def_span(d))),
            ("derived", J::Bool(tcx.def_span(d).from_expansion())),
            ("ret", ty_desc(tcx, body.return_ty(), 2)),
        ];
        if matches!(kind, DefKind::AssocFn) {
            if let Some(imp) = tcx.impl_of_assoc(d) {
                let self_ty = tcx.type_of(imp).instantiate_identity().skip_norm_wip();
                v.push(("impl_self", s(ty_str(self_ty))));
                if let Some(tr) = tcx.impl_opt_trait_ref(imp) {
                    v.push(("impl_trait", s(path(tcx, tr.instantiate_identity().skip_norm_wip().def_id))));
                }
            }
        }
        v.extend(body_json(tcx, def, body));
        let proms: Vec<J> = promoted.iter().map(|pb| J::Obj(body_json(tcx, def, pb))).collect();
        v.push(("promoted", J::Arr(proms)));
        emit(J::Obj(v));
    }

    let hash = format!("{:x}", tcx.stable_crate_id(rustc_hir::def_id::LOCAL_CRATE).as_u64());
    let fname = format!("{}/{}.{}.jsonl", out_dir, krate, hash);
    let _ = std::fs::create_dir_all(&out_dir);
    std::fs::write(&fname, out).expect("nxfacts: cannot write fact file");
}

fn collect_bodies<'tcx>(tcx: TyCtxt<'tcx>) -> Vec<(LocalDefId, Body<'tcx>, Vec<Body<'tcx>>)> {
    let mut v = Vec::new();
    let mut owners: Vec<(bool, LocalDefId)> = Vec::new();
    for def in tcx.hir_body_owners() {
        let kind = tcx.def_kind(def.to_def_id());
        match kind {
            DefKind::Fn | DefKind::AssocFn | DefKind::Closure | DefKind::SyntheticCoroutineBody => owners.push((false, def)),
            // initialisers of named constants and statics (lookup tables) are bodies too
            DefKind::Const { .. } | DefKind::AssocConst { .. } | DefKind::Static { .. } => owners.push((true, def)),
            _ => continue,
        }
    }
    // functions first: building a function's MIR may const-evaluate a constant (an array length), which steals that
    // constant's `mir_promoted`; constants fall back to their CTFE body below
    owners.sort_by_key(|(is_const, _)| *is_const);
    for (is_const, def) in owners {
        let (steal, promoted) = tcx.mir_promoted(def);
        if steal.is_stolen() {
            if is_const || tcx.is_const_fn(def.to_def_id()) {
                let body = tcx.mir_for_ctfe(def).clone();
                let proms: Vec<Body<'tcx>> = tcx.promoted_mir(def).iter().cloned().collect();
                v.push((def, body, proms));
            }
            continue;
        }
        let body = steal.borrow().clone();
        let proms: Vec<Body<'tcx>> = if promoted.is_stolen() { Vec::new() } else { promoted.borrow().iter().cloned().collect() };
        v.push((def, body, proms));
    }
    v
}
