// Minimal JSON value + writer (no dependencies).
use std::fmt::Write;

#[derive(Clone, Debug)]
pub enum J {
    Null,
    Bool(bool),
    Int(i128),
    Str(String),
    Arr(Vec<J>),
    Obj(Vec<(&'static str, J)>),
}

pub fn s<T: Into<String>>(x: T) -> J {
    J::Str(x.into())
}

pub fn opt<T>(x: Option<T>, f: impl FnOnce(T) -> J) -> J {
    match x {
        Some(v) => f(v),
        None => J::Null,
    }
}

impl J {
    pub fn write(&self, out: &mut String) {
        match self {
            J::Null => out.push_str("null"),
            J::Bool(b) => out.push_str(if *b { "true" } else { "false" }),
            J::Int(i) => {
                // ints beyond 2^53 are written as strings to stay exact in any reader
                if *i > (1i128 << 53) || *i < -(1i128 << 53) {
                    let _ = write!(out, "\"{}\"", i);
                } else {
                    let _ = write!(out, "{}", i);
                }
            }
            J::Str(s) => esc(s, out),
            J::Arr(v) => {
                out.push('[');
                for (i, x) in v.iter().enumerate() {
                    if i > 0 {
                        out.push(',');
                    }
                    x.write(out);
                }
                out.push(']');
            }
            J::Obj(v) => {
                out.push('{');
                for (i, (k, x)) in v.iter().enumerate() {
                    if i > 0 {
                        out.push(',');
                    }
                    esc(k, out);
                    out.push(':');
                    x.write(out);
                }
                out.push('}');
            }
        }
    }
}

fn esc(s: &str, out: &mut String) {
    out.push('"');
    for c in s.chars() {
        match c {
            '"' => out.push_str("\\\""),
            '\\' => out.push_str("\\\\"),
            '\n' => out.push_str("\\n"),
            '\r' => out.push_str("\\r"),
            '\t' => out.push_str("\\t"),
            c if (c as u32) < 0x20 => {
                let _ = write!(out, "\\u{:04x}", c as u32);
            }
            c => out.push(c),
        }
    }
    out.push('"');
}
