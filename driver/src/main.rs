// nxfacts — fact extractor for the nexrad static checks (engine E1).
//
// A rustc driver injected with RUSTC_WORKSPACE_WRAPPER. For every crate whose name is
// listed in NXFACTS_CRATES (default: the four workspace members + the witness crate) it
// dumps, from `after_expansion`, the ADT definitions, trait impls and the *pre-borrowck*
// MIR (`mir_promoted`) of every body — including `async fn` coroutines, whose initial
// MIR is stolen later — as JSON lines into $NXFACTS_OUT/<crate>.<hash>.jsonl, then lets
// compilation continue normally. It never runs any of the analysed code.
#![feature(rustc_private)]

extern crate rustc_abi;
extern crate rustc_driver;
extern crate rustc_hir;
extern crate rustc_interface;
extern crate rustc_middle;
extern crate rustc_session;
extern crate rustc_span;

mod dump;
mod json;

use rustc_driver::Compilation;
use rustc_interface::interface::Compiler;
use rustc_middle::ty::TyCtxt;

struct Cb;

impl rustc_driver::Callbacks for Cb {
    fn after_expansion<'tcx>(&mut self, _c: &Compiler, tcx: TyCtxt<'tcx>) -> Compilation {
        dump::dump_crate(tcx);
        Compilation::Continue
    }
}

fn main() {
    let mut args: Vec<String> = std::env::args().collect();
    // As RUSTC_WORKSPACE_WRAPPER we are called as `nxfacts <rustc> <args..>`.
    if args.len() > 1 && (args[1].ends_with("rustc") || args[1].contains("/rustc")) {
        args.remove(1);
    }
    let mut cb = Cb;
    rustc_driver::install_ice_hook("nxfacts", |_| ());
    let code = rustc_driver::catch_with_exit_code(|| {
        rustc_driver::run_compiler(&args, &mut cb);
    });
    std::process::exit(if code == std::process::ExitCode::SUCCESS { 0 } else { 1 });
}
