#!/bin/sh
# Build the fact extractor and warm the dependency caches (offline; from files on disk only).
set -e
cd "$(dirname "$0")"
export CARGO_NET_OFFLINE=true
(cd driver && cargo +nightly build --release --offline >/dev/null 2>&1)
test -x driver/target/release/nxfacts
python3 - <<'PY'
import sys
sys.path.insert(0, '.')
from nx import extract
d, info = extract.extract('all')
print('facts:', d, info)
print('witness:', extract.extract_witness())
PY
# warm the stable target dirs used by the feature matrix (C20)
./check C20 quick >/dev/null 2>&1 || true
echo setup-ok
