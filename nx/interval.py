"""INTERVAL — forward interval analysis over value-numbered terms (one function at a time, with
context-insensitive summaries of local callees). State = (local -> term, term -> interval,
set of relational facts). Used by R-PANIC / R-ALLOC / R-TERM to discharge preconditions.
Nothing is executed: this is a classic abstract interpretation with widening at loop heads."""
from . import sym
from .sym import C, is_c, INT_TYS, ty_range, binop, cast, unop, fld, mk_in, mk_not, TRUE, FALSE
from .ir import callee_of

INF = float("inf")
ISIZE_MAX = (1 << 63) - 1

PURE_STD = {
    "core::slice::<impl [T]>::len", "<alloc::vec::Vec<T, A> as core::ops::deref::Deref>::deref", "alloc::vec::Vec::<T, A>::len",
    "<[T] as core::convert::AsRef<[T]>>::as_ref", "alloc::vec::Vec::<T, A>::as_slice", "alloc::string::String::as_str",
    "<alloc::string::String as core::ops::deref::Deref>::deref", "alloc::string::String::len", "core::str::<impl str>::len",
    "core::array::<impl core::convert::AsRef<[T]> for [T; N]>::as_ref", "alloc::string::String::as_bytes",
    "<alloc::vec::Vec<T, A> as core::convert::AsRef<alloc::vec::Vec<T, A>>>::as_ref",
    "<alloc::vec::Vec<T, A> as core::convert::AsRef<[T]>>::as_ref",
}
IDENT = {"<alloc::vec::Vec<T, A> as core::ops::deref::Deref>::deref", "<[T] as core::convert::AsRef<[T]>>::as_ref",
         "alloc::vec::Vec::<T, A>::as_slice", "alloc::string::String::as_str", "<alloc::string::String as core::ops::deref::Deref>::deref",
         "core::array::<impl core::convert::AsRef<[T]> for [T; N]>::as_ref", "alloc::string::String::as_bytes",
         "<alloc::vec::Vec<T, A> as core::convert::AsRef<alloc::vec::Vec<T, A>>>::as_ref",
         "<alloc::vec::Vec<T, A> as core::convert::AsRef<[T]>>::as_ref", "core::hint::must_use",
         "<I as core::iter::traits::collect::IntoIterator>::into_iter"}
LEN = {"core::slice::<impl [T]>::len", "alloc::vec::Vec::<T, A>::len", "alloc::string::String::len", "core::str::<impl str>::len",
       "alloc::collections::vec_deque::VecDeque::<T, A>::len"}
IS_EMPTY = {"core::slice::<impl [T]>::is_empty", "alloc::vec::Vec::<T, A>::is_empty", "alloc::string::String::is_empty", "core::str::<impl str>::is_empty",
            "alloc::collections::vec_deque::VecDeque::<T, A>::is_empty"}

MS = {"chrono::time_delta::TimeDelta::days": 86_400_000, "chrono::time_delta::TimeDelta::hours": 3_600_000,
      "chrono::time_delta::TimeDelta::minutes": 60_000, "chrono::time_delta::TimeDelta::seconds": 1000,
      "chrono::time_delta::TimeDelta::milliseconds": 1}


# Ok-payload ranges of library calls (axioms): std::io::Seek positions are file offsets (off_t / slice lengths), never above i64::MAX
OK_RANGES = {"std::io::Seek::stream_position": (0, (1 << 63) - 1), "std::io::Seek::seek": (0, (1 << 63) - 1)}


def meet(a, b):
    return (max(a[0], b[0]), min(a[1], b[1]))


def hull(a, b):
    return (min(a[0], b[0]), max(a[1], b[1]))


class State:
    __slots__ = ("val", "rng", "rel")

    def __init__(self, val=None, rng=None, rel=None):
        self.val = val or {}
        self.rng = rng or {}
        self.rel = rel or frozenset()

    def copy(self):
        return State(dict(self.val), dict(self.rng), self.rel)

    def key(self):
        return (tuple(sorted(self.val.items(), key=lambda kv: kv[0])), tuple(sorted(self.rng.items(), key=repr)), self.rel)


class FnAnalysis:
    def __init__(self, eng, fn, param_rng=None, seed=None):
        self.eng = eng
        self.fn = fn
        self.seed = seed or {}   # {term over ('arg', i): (lo, hi)} assumed on entry (a stated input domain)
        self.ty = {}            # term -> integer type name
        self.entry = {}         # bb -> State
        self.visits = {}
        self.param_rng = param_rng or {}
        self.ret = None         # hull of returned integer range
        self.returns = []       # states at Return terminators (last fixpoint pass)
        self.collect_ret = None  # when a list: (state, value) right after each assignment to the return place
        self.run()

    # ---------------- terms for places / operands
    def local_ty(self, l):
        return self.fn.locals[l]["ty"]["s"]

    def read_place(self, st, pl):
        l = pl["l"]
        v = st.val.get(l)
        if v is None:
            v = ("loc", l)
            self._reg(v, self.local_ty(l))
        for e in pl["p"]:
            if e == "*":
                continue
            if isinstance(e, dict) and "f" in e:
                name = e.get("name") or str(e["f"])
                if v[0] == "ovf":
                    v = v[1] if e["f"] == 0 else ("ovf_flag", v[1])
                elif v[0] == "tuple":
                    v = v[1][e["f"]]
                elif v[0] == "down":
                    if v[2] in ("Continue", "Ok") and v[1][0] == "try":
                        v = ("okval", v[1][1])
                    elif v[2] == "Ok":
                        v = ("okval", v[1])
                    elif v[2] == "Some":
                        v = ("someval", v[1][1] if v[1][0] == "try" else v[1])
                    else:
                        v = ("vfld", v[1], v[2], name)
                else:
                    v = fld(v, name)
                self._reg(v, e.get("ty"))
            elif isinstance(e, dict) and "down" in e:
                v = ("down", v, e.get("name") or str(e["down"]))
            elif isinstance(e, dict) and "idx" in e:
                v = ("idx", v, st.val.get(e["idx"], ("loc", e["idx"])))
            elif isinstance(e, dict) and "cidx" in e:
                v = ("idx", v, C(e["cidx"], "usize"))
            else:
                v = ("proj", v, repr(e))
        return v

    def _reg(self, term, ty):
        if ty in INT_TYS and term not in self.ty:
            self.ty[term] = ty

    def operand(self, st, o):
        k = o.get("k")
        if k in ("copy", "move"):
            return self.read_place(st, o["pl"])
        if k == "const":
            if "fn" in o:
                return ("fnptr", o["fn"])
            if "float" in o:
                return C(float(o["float"]), o["ty"])
            if "int" in o:
                return C(int(o["int"]), o["ty"])
            if "str" in o:
                return C(o["str"], "&str")
            if "uneval" in o and "promoted" not in o:
                c = self.eng.prog.consts.get(o["uneval"])
                if c and "int" in c:
                    return C(int(c["int"]), c["ty"])
            return ("const", o.get("pp", "?"))
        return ("unk",)

    def rvalue(self, st, s, bb, i):
        r = s["rv"]
        if r == "use":
            return self.operand(st, s["a"])
        if r in ("ref", "rawptr"):
            return self.read_place(st, s["pl"])
        if r == "bin":
            a, b = self.operand(st, s["a"]), self.operand(st, s["b"])
            op, ty = s["op"], s["ty"]
            if op.endswith("WithOverflow"):
                # keep the checked operation unsimplified: its overflow flag is decided from the operand ranges
                t = ("bin", op.replace("WithOverflow", ""), a, b, ty)
                self._reg(t, ty)
                return ("ovf", t)
            if op in sym.CMP and ty in INT_TYS and is_c(a) != is_c(b):
                # a comparison with a constant keeps its relational form (so `0 != n` records 0 < n), not a range test
                if op in ("Gt", "Ge"):
                    op, a, b = ("Lt" if op == "Gt" else "Le"), b, a
                return ("bin", op, a, b, ty)
            t = binop(op, a, b, ty)
            if op not in sym.CMP:
                self._reg(t, ty)
            return t
        if r == "un":
            t = unop(s["op"], self.operand(st, s["a"]), s["ty"])
            self._reg(t, "usize" if s["op"] == "PtrMetadata" else s["ty"])
            return t
        if r == "cast":
            a = self.operand(st, s["a"])
            frm, to = s["from"]["s"], s["ty"]["s"]
            if frm in INT_TYS and to in INT_TYS:
                t = cast(a, frm, to)
                self._reg(t, to)
                return t
            if "Unsize" in s["ck"] or s["ck"].startswith("PtrToPtr") or "PointerCoercion" in s["ck"]:
                return a
            return ("cast", a, frm, to)
        if r == "discr":
            v = self.read_place(st, s["pl"])
            if v[0] == "adt":
                try:
                    return sym.Evaluator(self.eng.prog).discriminant(v)
                except sym.Undecided:
                    pass
            return ("discr", v)
        if r == "agg":
            ops = [self.operand(st, o) for o in s["ops"]]
            if s["ak"] == "adt":
                return sym.adt(s["adt"], s["vname"], tuple(zip(s["fields"], ops)))
            if s["ak"] == "tuple":
                return ("tuple", tuple(ops))
            if s["ak"] == "array":
                return ("array", tuple(ops))
            return ("agg", s["ak"], s.get("def"), tuple(ops))
        if r == "repeat":
            return ("repeat", self.operand(st, s["a"]), s.get("n"))
        return ("unk", bb, i)

    # ---------------- ranges
    def tyrange(self, t):
        ty = self.ty.get(t)
        if ty in INT_TYS:
            return ty_range(ty)
        return (-INF, INF)

    def range_of(self, st, t, depth=0):
        r = self._range(st, t, depth)
        k = st.rng.get(t)
        if k is not None:
            r = meet(r, k)
        if st.rel and depth < 6 and not is_c(t):
            for op, u, v in st.rel:
                if u == t and v != t:
                    hb = self.range_of(st, v, depth + 3)[1]
                    r = (r[0], min(r[1], hb - (1 if op == "lt" else 0)))
                elif v == t and u != t:
                    lb = self.range_of(st, u, depth + 3)[0]
                    r = (max(r[0], lb + (1 if op == "lt" else 0)), r[1])
        return r

    def _range(self, st, t, depth):
        if depth > 30:
            return self.tyrange(t)
        k = t[0]
        if k == "c":
            if isinstance(t[1], bool):
                return (int(t[1]), int(t[1]))
            if isinstance(t[1], int):
                return (t[1], t[1])
            return (-INF, INF)
        R = lambda x: self.range_of(st, x, depth + 1)
        if k == "cast":
            frm, to = t[2], t[3]
            if frm in INT_TYS and to in INT_TYS:
                a = R(t[1])
                lo, hi = ty_range(to)
                if a[0] >= lo and a[1] <= hi:
                    return a
                return (lo, hi)
            return self.tyrange(t)
        if k == "bin":
            ty = t[4]
            if t[1] in sym.CMP:
                return (0, 1)
            a, b = R(t[2]), R(t[3])
            m = self.math(t[1], a, b, ty)
            if t[1] == "Sub" and depth < 3:
                if ("lt", t[3], t[2]) in st.rel:
                    m = (max(m[0], 1), m[1])
                elif ("le", t[3], t[2]) in st.rel:
                    m = (max(m[0], 0), m[1])
            if ty in INT_TYS:
                lo, hi = ty_range(ty)
                if m[0] >= lo and m[1] <= hi:
                    return m
                return (lo, hi)
            return m
        if k == "len":
            return (0, ISIZE_MAX)
        if k == "un":
            if t[1] == "unsigned_abs":
                a = R(t[2])
                return (0, max(abs(a[0]), abs(a[1])))
            if t[1] == "abs":
                a = R(t[2])
                if a[0] >= 0:
                    return a
                return (0, max(abs(a[0]), abs(a[1])))
            if t[1] == "Neg":
                a = R(t[2])
                return (-a[1], -a[0])
            return self.tyrange(t)
        if k == "satsub":
            a, b = R(t[1]), R(t[2])
            return (max(0, a[0] - b[1]), max(0, a[1] - b[0]))
        if k == "satadd":
            a, b = R(t[1]), R(t[2])
            hi = ty_range(t[3])[1]
            return (min(hi, a[0] + b[0]), min(hi, a[1] + b[1]))
        if k == "min":
            a, b = R(t[1]), R(t[2])
            return (min(a[0], b[0]), min(a[1], b[1]))
        if k == "max":
            a, b = R(t[1]), R(t[2])
            return (max(a[0], b[0]), max(a[1], b[1]))
        if k == "call":
            return meet(self.tyrange(t), self.eng.ret_range(t[1]))
        if k == "ms":        # a TimeDelta value measured in milliseconds
            a = R(t[2])
            return (a[0] * t[1], a[1] * t[1])
        if k == "in" or k == "not" or k == "ovf_flag":
            return (0, 1)
        if k == "pow":
            b, e = self.range_of(st, t[1], depth + 1), self.range_of(st, t[2], depth + 1)
            if b[0] >= 0 and e[0] >= 0 and INF not in (b[1], e[1]) and e[1] <= 200:
                try:
                    return (int(b[0]) ** int(e[0]), int(b[1]) ** int(e[1]))
                except OverflowError:
                    pass
            return self.tyrange(t)
        if k == "someval" and t[1][0] == "rangenext":
            lo = self.range_of(st, t[1][1], depth + 1)
            hi = self.range_of(st, t[1][2], depth + 1)
            return (lo[0], hi[1] - 1)
        if k == "okval":
            x = t[1]
            if x[0] == "ret" and x[1] == self.fn.path:
                ct = self.fn.blocks[x[2]]["term"]
                r = OK_RANGES.get(callee_of(ct)) or OK_RANGES.get(ct.get("callee") or "")
                if r:
                    return meet(self.tyrange(t), r)
            return self.tyrange(t)
        return self.tyrange(t)

    @staticmethod
    def math(op, a, b, ty):
        op = op.replace("WithOverflow", "").replace("Unchecked", "")
        if op == "Add":
            return (a[0] + b[0], a[1] + b[1])
        if op == "Sub":
            return (a[0] - b[1], a[1] - b[0])
        if op == "Mul":
            if INF in (abs(a[0]), abs(a[1]), abs(b[0]), abs(b[1])):
                return (-INF, INF) if (a[0] < 0 or b[0] < 0) else (0 if 0 in (a[0], b[0]) else a[0] * b[0], INF)
            c = [a[0] * b[0], a[0] * b[1], a[1] * b[0], a[1] * b[1]]
            return (min(c), max(c))
        if op == "Div":
            if b[0] > 0 and a[0] >= 0 and INF not in (a[1], b[1]):
                return (a[0] // b[1], a[1] // b[0])
            if b[0] > 0 and a[0] >= 0:
                return (0, a[1])
            return (-INF, INF)
        if op == "Rem":
            if b[0] > 0 and a[0] >= 0:
                return (0, min(a[1], b[1] - 1))
            return (-INF, INF)
        if op == "BitAnd":
            if a[0] >= 0 and b[0] >= 0:
                return (0, min(a[1], b[1]))
            if b[0] >= 0:
                return (0, b[1])
            if a[0] >= 0:
                return (0, a[1])
            return (-INF, INF)
        if op in ("BitOr", "BitXor"):
            if a[0] >= 0 and b[0] >= 0 and INF not in (a[1], b[1]):
                n = max(int(a[1]).bit_length(), int(b[1]).bit_length())
                return (0, (1 << n) - 1)
            return (-INF, INF)
        if op == "Shl":
            if b[0] == b[1] and a[0] >= 0 and INF not in (a[1], b[1]):
                return (a[0] << int(b[0]), a[1] << int(b[0]))
            return (-INF, INF)
        if op == "Shr":
            if b[0] == b[1] and a[0] >= 0 and INF not in (a[1], b[1]):
                return (a[0] >> int(b[0]), a[1] >> int(b[0]))
            if a[0] >= 0:
                return (0, a[1])
            return (-INF, INF)
        return (-INF, INF)

    # ---------------- relational facts: a <= b / a < b provable in state st
    def le(self, st, a, b, depth=0, strict=False):
        """a <= b (a < b when strict) from ranges, recorded comparisons and the shape of the terms (min/max/saturating
        arithmetic, non-negative offsets); False means 'not proved'"""
        if not strict and a == b:
            return True
        ra, rb = self.range_of(st, a), self.range_of(st, b)
        if (ra[1] < rb[0]) if strict else (ra[1] <= rb[0]):
            return True
        if ("lt", a, b) in st.rel or (not strict and ("le", a, b) in st.rel):
            return True
        if depth > 5:
            return False
        d = depth + 1
        # strip value-preserving casts
        for x, side in ((a, 0), (b, 1)):
            if x[0] == "cast" and len(x) == 4 and sym._uwiden(x[2], x[3]):
                return self.le(st, x[1] if side == 0 else a, b if side == 0 else x[1], d, strict)
        if a[0] == "min" and (self.le(st, a[1], b, d, strict) or self.le(st, a[2], b, d, strict)):
            return True
        if b[0] == "max" and (self.le(st, a, b[1], d, strict) or self.le(st, a, b[2], d, strict)):
            return True
        if b[0] == "min" and self.le(st, a, b[1], d, strict) and self.le(st, a, b[2], d, strict):
            return True
        if a[0] == "max" and self.le(st, a[1], b, d, strict) and self.le(st, a[2], b, d, strict):
            return True
        if a[0] == "satsub" and self.le(st, a[1], b, d, strict):
            return True
        if not strict and a[0] == "bin" and len(a) == 5 and a[1] == "Add":
            for x, k in ((a[2], a[3]), (a[3], a[2])):
                if is_c(k) and k[1] == 1 and self.le(st, x, b, d, True):
                    return True         # x < b  =>  x + 1 <= b (integers)
        if a[0] == "bin" and a[1] == "Sub" and len(a) == 5 and self.range_of(st, a[3])[0] >= 0 and self.le(st, a[2], b, d, strict):
            return True         # x - k <= x for k >= 0 (the subtraction itself is checked for underflow separately)
        if b[0] == "bin" and b[1] == "Add" and len(b) == 5:
            for x, k in ((b[2], b[3]), (b[3], b[2])):
                if self.range_of(st, k)[0] >= 0 and self.le(st, a, x, d, strict):
                    return True
        if b[0] == "satadd":
            for x, k in ((b[1], b[2]), (b[2], b[1])):
                pass
        # one step of transitivity through recorded comparisons
        for op, x, y in st.rel:
            if x == a and y != b:
                if self.le(st, y, b, d + 2, strict and op != "lt"):
                    return True
        return False

    # ---------------- truth of a condition term under a state: True / False / None
    def truth(self, st, c):
        if is_c(c):
            return bool(c[1])
        k = c[0]
        if k == "in":
            r = self.range_of(st, c[1])
            inside = any(lo <= r[0] and r[1] <= hi for lo, hi in c[3])
            if inside:
                return True
            if all(r[1] < lo or r[0] > hi for lo, hi in c[3]):
                return False
            return None
        if k == "not":
            t = self.truth(st, c[1])
            return None if t is None else (not t)
        if k == "ovf_flag":
            b = c[1]
            if b[0] != "bin":
                return None
            ty = b[4]
            m = self.math(b[1], self.range_of(st, b[2]), self.range_of(st, b[3]), ty)
            lo, hi = ty_range(ty)
            if m[0] >= lo and m[1] <= hi:
                return False
            if (b[1].startswith("Sub")) and (("le", b[3], b[2]) in st.rel or ("lt", b[3], b[2]) in st.rel) and lo == 0:
                return False
            return None
        if k == "bin" and c[1] in ("BitAnd", "BitOr") and c[4] == "bool":
            x, y = self.truth(st, c[2]), self.truth(st, c[3])
            if c[1] == "BitAnd":
                if x is False or y is False:
                    return False
                if x is True and y is True:
                    return True
            else:
                if x is True or y is True:
                    return True
                if x is False and y is False:
                    return False
            return None
        if k == "bin" and c[1] in ("Lt", "Le", "Eq", "Ne"):
            a, b = c[2], c[3]
            ra, rb = self.range_of(st, a), self.range_of(st, b)
            op = c[1]
            if op == "Lt":
                if ra[1] < rb[0] or ("lt", a, b) in st.rel or self.le(st, a, b, strict=True):
                    return True
                if ra[0] >= rb[1] or ("le", b, a) in st.rel or self.le(st, b, a):
                    return False
            if op == "Le":
                if ra[1] <= rb[0] or ("le", a, b) in st.rel or ("lt", a, b) in st.rel or a == b or self.le(st, a, b):
                    return True
                if ra[0] > rb[1] or ("lt", b, a) in st.rel or self.le(st, b, a, strict=True):
                    return False
            if op == "Eq":
                if a == b or (ra[0] == ra[1] == rb[0] == rb[1]):
                    return True
                if ra[1] < rb[0] or rb[1] < ra[0]:
                    return False
            if op == "Ne":
                t = self.truth(st, ("bin", "Eq", a, b, c[4]))
                return None if t is None else (not t)
            return None
        r = st.rng.get(c)
        if r is not None and r[0] == r[1]:
            return bool(r[0])
        return None

    # ---------------- refinement on branch edges; returns None when the edge is infeasible
    def assume(self, st, c, truth):
        t = self.truth(st, c)
        if t is not None:
            if t != truth:
                return None
            if c[0] == "bin" and len(c) == 5 and c[1] in ("Lt", "Le", "Ne", "Eq") and not (is_c(c[2]) and is_c(c[3])):
                # decided from the ranges, but keep the ordering as a fact: it may be all that survives a later join
                a, b, op = c[2], c[3], c[1]
                if not truth:
                    op, a, b = {"Lt": ("Le", b, a), "Le": ("Lt", b, a), "Eq": ("Ne", a, b), "Ne": ("Eq", a, b)}[op]
                fact = None
                if op in ("Lt", "Le"):
                    fact = ("lt" if op == "Lt" else "le", a, b)
                elif op == "Ne":
                    ra, rb = self.range_of(st, a), self.range_of(st, b)
                    fact = ("lt", a, b) if ra[1] < rb[0] else (("lt", b, a) if rb[1] < ra[0] else None)
                if fact is not None and fact not in st.rel:
                    st = st.copy()
                    st.rel = st.rel | {fact}
            return st
        st = st.copy()
        k = c[0]
        if k == "not":
            return self.assume(st, c[1], not truth)
        if truth:
            # conditions that imply an Option-valued `get` is Some imply the slice is long enough
            x = None
            if k == "is_some":
                x = c[1]
            elif k == "in" and c[1][0] == "discr" and c[3] == ((1, 1),):
                x = c[1][1]
            elif k == "bin" and c[1] == "Eq" and c[4] == "val":
                for a, b in ((c[2], c[3]), (c[3], c[2])):
                    if b[0] == "adt" and b[2] == "Some":
                        x = a
            if x is not None:
                self._imply_some(st, x)
        if k == "in":
            ty = c[2]
            rs = c[3] if truth else sym.rs_compl(c[3], ty)
            cur = self.range_of(st, c[1])
            pieces = [meet(cur, r) for r in rs]
            pieces = [p for p in pieces if p[0] <= p[1]]
            if not pieces:
                return None
            st.rng[c[1]] = (min(p[0] for p in pieces), max(p[1] for p in pieces))
            return st
        if k == "bin" and c[1] in ("Lt", "Le", "Eq", "Ne"):
            a, b, op = c[2], c[3], c[1]
            if not truth:
                # !(a<b) = b<=a ; !(a<=b) = b<a
                op, a, b = {"Lt": ("Le", b, a), "Le": ("Lt", b, a), "Eq": ("Ne", a, b), "Ne": ("Eq", a, b)}[op]
            ra, rb = self.range_of(st, a), self.range_of(st, b)
            if op == "Lt":
                st.rng[a] = meet(ra, (-INF, rb[1] - 1))
                st.rng[b] = meet(rb, (ra[0] + 1, INF))
                st.rel = st.rel | {("lt", a, b)}
            elif op == "Le":
                st.rng[a] = meet(ra, (-INF, rb[1]))
                st.rng[b] = meet(rb, (ra[0], INF))
                st.rel = st.rel | {("le", a, b)}
            elif op == "Eq":
                m = meet(ra, rb)
                st.rng[a] = m
                st.rng[b] = m
            elif op == "Ne":
                # a != b together with a <= b (b <= a) is a < b (b < a)
                if self.le(st, a, b):
                    st.rel = st.rel | {("lt", a, b)}
                elif self.le(st, b, a):
                    st.rel = st.rel | {("lt", b, a)}
            for x in (a, b):
                r = st.rng.get(x)
                if r is not None and r[0] > r[1]:
                    return None
                if is_c(x) and x in st.rng:
                    del st.rng[x]
            return st
        st.rng[c] = (1, 1) if truth else (0, 0)
        if k == "call" and truth and self.eng.is_pure(c[1]):
            # facts that hold whenever this pure boolean callee returns true, instantiated at the actual arguments
            for term, r in self.eng.true_facts(c[1]).items():
                sub = {("arg", i + 1): a for i, a in enumerate(c[2])}
                inst = sym.rebuild(term, sub)
                cur = st.rng.get(inst)
                st.rng[inst] = meet(cur, r) if cur else r
                if term in self.eng.analysis(c[1]).ty:
                    self.ty.setdefault(inst, self.eng.analysis(c[1]).ty[term])
        return st

    def _imply_some(self, st, x):
        while x[0] in ("try",):
            x = x[1]
        if x[0] != "get":
            return
        s, idx = x[1], x[2]
        need = None
        if idx[0] == "adt":
            f = dict(idx[3])
            n = idx[1].split("::")[-1]
            if n in ("Range", "RangeTo") and f.get("end") is not None:
                need = self.range_of(st, f["end"])[0]
            elif n == "RangeFrom":
                need = self.range_of(st, f["start"])[0]
            elif n == "RangeToInclusive":
                need = self.range_of(st, f["end"])[0] + 1
        else:
            need = self.range_of(st, idx)[0] + 1
        if need is not None and need > 0:
            lt = ("len", s)
            self._reg(lt, "usize")
            st.rng[lt] = meet(self.range_of(st, lt), (need, INF))

    # ---------------- transfer
    def step_block(self, bb, st, visitor=None):
        """returns list of (successor, state)"""
        fn = self.fn
        blk = fn.blocks[bb]
        st = st.copy()
        for i, s in enumerate(blk["stmts"]):
            if s["s"] == "assign":
                v = self.rvalue(st, s, bb, i)
                self.write(st, s["dst"], v)
                if s["dst"]["l"] == 0 and not s["dst"]["p"] and self.collect_ret is not None:
                    self.collect_ret.append((st.copy(), v))
        t = blk["term"]
        k = t["t"]
        if visitor:
            visitor(bb, st, t)
        if k == "goto":
            return [(t["target"], st)]
        if k in ("return", "unreachable", "resume", "terminate", "coroutine_drop"):
            if k == "return":
                self.returns.append(st)
                v = st.val.get(0)
                if v is not None:
                    r = self.range_of(st, v)
                    self.ret = r if self.ret is None else hull(self.ret, r)
                else:
                    self.ret = (-INF, INF)
            return []
        if k == "drop":
            return [(t["target"], st)]
        if k == "yield":
            return [(t["target"], st)]
        if k == "assert":
            c = self.operand(st, t["cond"])
            s2 = self.assume(st, c, t["expected"])
            return [(t["target"], s2)] if s2 is not None else []
        if k == "switch":
            d = self.operand(st, t["discr"])
            dty = t["dty"]
            out = []
            if dty == "bool":
                for val, tgt in t["arms"]:
                    s2 = self.assume(st, d, bool(int(val)))
                    if s2 is not None:
                        out.append((tgt, s2))
                vals = {int(v) for v, _ in t["arms"]}
                rest = {0, 1} - vals
                if rest:
                    s2 = self.assume(st, d, bool(rest.pop()))
                    if s2 is not None:
                        out.append((t["otherwise"], s2))
                return out
            ty = dty if dty in INT_TYS else "isize"
            self._reg(d, ty)
            taken = []
            for val, tgt in t["arms"]:
                v = sym.wrap(int(val), ty)
                s2 = self.assume(st, mk_in(d, ty, ((v, v),)), True)
                if s2 is not None:
                    out.append((tgt, s2))
                taken.append((v, v))
            s2 = self.assume(st, mk_in(d, ty, tuple(taken)), False) if not is_c(d) else (st if all(d[1] != a for a, _ in taken) else None)
            if s2 is not None:
                out.append((t["otherwise"], s2))
            return out
        if k == "call":
            args = [self.operand(st, a["node"] if "node" in a else a) for a in t["args"]]
            res = self.call_value(st, t, args, bb)
            self.write(st, t["dest"], res)
            if t["dest"]["l"] == 0 and not t["dest"]["p"] and self.collect_ret is not None:
                self.collect_ret.append((st.copy(), res))
            # a call that takes &mut to a local may change it: forget what we know about such locals
            for a in t["args"]:
                pass
            return [(t["target"], st)] if t.get("target") is not None else []
        return []

    def write(self, st, pl, v):
        l = pl["l"]
        if not pl["p"]:
            # kill facts mentioning the old value of this local is unnecessary: terms are values, not locations
            st.val[l] = v
        else:
            # partial write: forget the aggregate's symbolic value
            st.val[l] = ("havoc", l, id(pl) & 0xFFFF) if False else ("loc2", l, len(st.val))
            st.val.pop(l, None)

    def call_value(self, st, t, args, bb):
        name = callee_of(t)
        decl = t.get("callee") or ""
        eng = self.eng
        if name in IDENT or decl in IDENT:
            return args[0]
        if name in LEN or decl in LEN:
            v = ("len", args[0])
            self._reg(v, "usize")
            return v
        if name == sym.RANGE_NEXT and args and args[0][0] == "adt" and args[0][1] == "core::ops::range::Range":
            # value semantics keep the iterator's initial bounds: every yielded element lies in [start, end)
            v = ("rangenext", fld(args[0], "start"), fld(args[0], "end"), bb)
            return v
        if name in IS_EMPTY or decl in IS_EMPTY:
            v = ("len", args[0])
            self._reg(v, "usize")
            return mk_in(v, "usize", ((0, 0),))
        nc = sym._num_conv(name, t)
        if nc is not None and len(args) == 1 and nc[0] in INT_TYS and nc[1] in INT_TYS:
            v = cast(args[0], nc[0], nc[1])
            self._reg(v, nc[1])
            return v
        m = eng.value_models.get(name) or eng.value_models.get(decl)
        if m:
            v = m(self, st, t, args)
            if v is not None:
                return v
        if name in MS:
            return ("ms", MS[name], args[0])
        if name.endswith("as core::ops::try_trait::Try>::branch") or decl == "core::ops::try_trait::Try::branch":
            return ("try", args[0])
        target = eng.prog.fn(name) or eng.prog.fn(decl)
        rty = None
        dest_ty = self.place_ty(t["dest"])
        if target is not None and eng.is_pure(target.path):
            v = ("call", target.path, tuple(args))
            self._reg(v, dest_ty)
            return v
        v = ("ret", self.fn.path, bb)
        self._reg(v, dest_ty)
        kind = name.rsplit("::", 1)[-1]
        if name.startswith("core::slice::<impl [T]>::") and kind in ("chunks_exact", "windows", "chunks", "rchunks", "chunks_exact_mut") and len(args) == 2:
            r = self.range_of(st, args[1])
            if r[0] == r[1] and r[0] > 0:
                self.__dict__.setdefault("chunk_n", {})[v] = (r[0], kind)
        if kind == "next" and args and args[0] in self.__dict__.get("chunk_n", {}):
            # elements of slice.chunks_exact(n) / windows(n) have exactly n items; of chunks(n) between 1 and n
            n, ck = self.chunk_n[args[0]]
            lt = ("len", ("someval", v))
            self._reg(lt, "usize")
            st.rng[lt] = (n, n) if ck in ("chunks_exact", "windows", "chunks_exact_mut") else (1, n)
        if target is not None:
            rr = eng.ret_range(target.path)
            if rr != (-INF, INF):
                st.rng[v] = rr
        return v

    def place_ty(self, pl):
        if not pl["p"]:
            return self.local_ty(pl["l"])
        last = pl["p"][-1]
        if isinstance(last, dict) and "ty" in last:
            return last["ty"]
        return None

    # ---------------- fixpoint
    def run(self):
        fn = self.fn
        st0 = State()
        for i in range(fn.arg_count):
            v = ("arg", i + 1)
            st0.val[i + 1] = v
            self._reg(v, self.local_ty(i + 1))
            if (i + 1) in self.param_rng:
                st0.rng[v] = self.param_rng[i + 1]
        for tm, r in self.seed.items():
            st0.rng[tm] = r
        self.entry = {0: st0}
        work = [0]
        loops = fn.loops()
        heads = set(loops)
        self.visits = {}
        # per-edge out-states: a block's entry is the join of the states on its incoming edges (not of every state it
        # was ever entered with), so facts established on the only path into a block survive re-visits; loop heads
        # additionally widen against their previous entry
        edge = {}
        preds = {}
        invariant = {}
        guard = 0
        while work:
            guard += 1
            if guard > 20000:
                raise RuntimeError("interval fixpoint did not converge in " + fn.path)
            bb = work.pop()
            st = self.entry[bb]
            outs = {}
            for succ, s2 in self.step_block(bb, st):
                if fn.blocks[succ]["cleanup"]:
                    continue
                outs[succ] = s2 if succ not in outs else self.join(outs[succ], s2, succ)
            for succ, s2 in outs.items():
                if succ in heads and bb not in loops[succ]:
                    prev = edge.get((bb, succ))
                    if prev is not None and prev.key() != s2.key():
                        # the loop is entered with a new state: forget what its back edges carried from the previous
                        # entry (ordering facts are 'must' information; stale back edges would erase them for good)
                        for p in [p for p in preds.get(succ, ()) if p in loops[succ]]:
                            edge.pop((p, succ), None)
                            preds[succ].discard(p)
                edge[(bb, succ)] = s2
                preds.setdefault(succ, set()).add(bb)
                keep = None
                if succ in heads:
                    # locals the loop never assigns keep the value they have on the entry edges (no phi for them)
                    inv = invariant.get(succ)
                    if inv is None:
                        inv = invariant[succ] = set(range(len(fn.locals))) - _assigned_in(fn, loops[succ])
                    ent = [edge[(p, succ)] for p in sorted(preds[succ]) if p not in loops[succ]]
                    if len(ent) == 1:
                        keep = {l: v for l, v in ent[0].val.items() if l in inv}
                acc = None
                for p in sorted(preds[succ]):
                    e = edge[(p, succ)]
                    acc = e if acc is None else self.join(acc, e, succ, keep=keep)
                old = self.entry.get(succ)
                n = self.visits.get(succ, 0)
                if old is not None and succ in heads:
                    acc = self.join(old, acc, succ, widen=(n > 3), keep=keep, fresh_rel=(n <= 8))
                if old is not None and acc.key() == old.key():
                    continue
                self.visits[succ] = n + 1
                self.entry[succ] = acc
                if succ not in work:
                    work.append(succ)

    def join(self, a, b, bb, widen=False, keep=None, fresh_rel=False):
        val = {}
        rng = {}
        newphi = {}        # phi term -> (value on edge a, value on edge b)
        for l in set(a.val) & set(b.val):
            if a.val[l] == b.val[l]:
                val[l] = a.val[l]
            elif keep and l in keep:
                val[l] = keep[l]        # not assigned anywhere in this loop: the value it had on entry
            else:
                p = ("phi", bb, l)
                self._reg(p, self.local_ty(l))
                val[l] = p
                newphi[p] = (a.val[l], b.val[l])
                ra = self.range_of(a, a.val[l])
                rb = self.range_of(b, b.val[l])
                h = hull(ra, rb)
                if widen:
                    old = a.rng.get(p, ra) if a.val[l] == p else ra
                    tr = self.tyrange(p)
                    h = (h[0] if h[0] >= old[0] else tr[0], h[1] if h[1] <= old[1] else tr[1])
                rng[p] = h
        rebound = set(newphi)

        def stale(t):
            """t mentions a phi of this block that is being re-bound by this join: facts about it describe the old value"""
            return bool(rebound) and any(_mentions_any(t, rebound) for _ in (0,))
        for t in set(a.rng) & set(b.rng):
            if t in rng:
                continue
            if t not in rebound and stale(t):
                continue
            h = hull(a.rng[t], b.rng[t])
            if widen and h != a.rng[t]:
                tr = self.tyrange(t)
                h = (h[0] if h[0] >= a.rng[t][0] else tr[0], h[1] if h[1] <= a.rng[t][1] else tr[1])
            rng[t] = h
        # head update (a = the block's previous entry, b = the join over all its incoming edges as they stand now): b alone
        # already covers every way into the block, so its ordering facts are taken as they are for the first rounds (a
        # cannot know facts about terms that did not exist when it was computed); later rounds intersect, which terminates
        base = b.rel if fresh_rel else (a.rel & b.rel)
        rel = {f for f in base if not (stale(f[1]) or stale(f[2]))}
        # relational invariants of re-bound values: `phi <= B` (or `B <= phi`) holds after the join when it holds for the
        # value on each incoming edge in that edge's state (B itself not re-bound here)
        for p, (xa, xb) in newphi.items():
            cands = set()
            for st_ in (a, b):
                for op, u, v in st_.rel:
                    cands.add(("up", v))
                    cands.add(("lo", u))
            for side, B in cands:
                if stale(B) or is_c(B):
                    continue
                if side == "up" and self.le(a, xa, B) and self.le(b, xb, B):
                    rel.add(("le", p, B))
                elif side == "lo" and self.le(a, B, xa) and self.le(b, B, xb):
                    rel.add(("le", B, p))
        return State(val, rng, frozenset(rel))

    # ---------------- final pass: visit every reachable terminator with its pre-state
    def visit_sites(self, visitor):
        for bb in sorted(self.entry):
            if self.fn.blocks[bb]["cleanup"]:
                continue
            self.step_block(bb, self.entry[bb], visitor)


def _assigned_in(fn, body):
    """locals written (assigned, mutably borrowed, or a call destination) somewhere in the blocks of `body`"""
    out = set()
    for b in body:
        blk = fn.blocks[b]
        for st in blk["stmts"]:
            if st["s"] == "assign":
                out.add(st["dst"]["l"])
                if st.get("rv") in ("ref", "rawptr") and not str(st.get("bk", "")).startswith(("Shared", "Fake", "Not")):
                    out.add(st["pl"]["l"])
            elif st["s"] == "setdiscr":
                out.add(st["dst"]["l"])
        t = blk["term"]
        if t and t["t"] == "call":
            out.add(t["dest"]["l"])
        if t and t["t"] == "yield" and t.get("resume_arg"):
            out.add(t["resume_arg"]["l"])
        if t and t["t"] == "drop":
            out.add(t["pl"]["l"])
    return out


def _mentions_any(t, subs):
    if t in subs:
        return True
    if isinstance(t, tuple):
        return any(_mentions_any(x, subs) for x in t if isinstance(x, tuple))
    return False


class Engine:
    def __init__(self, prog):
        self.prog = prog
        self._ret = {}
        self._pure = {}
        self._an = {}
        self._tf = {}
        self.value_models = dict(VALUE_MODELS)

    def analysis(self, path, param_rng=None, seed=None):
        key = (path, tuple(sorted((param_rng or {}).items())), tuple(sorted((seed or {}).items(), key=repr)))
        if key not in self._an:
            self._an[key] = FnAnalysis(self, self.prog.fn(path), param_rng, seed)
        return self._an[key]

    def ret_range(self, path):
        if path in self._ret:
            return self._ret[path]
        fn = self.prog.fn(path)
        if fn is None:
            return (-INF, INF)
        self._ret[path] = (-INF, INF)     # recursion guard
        rty = fn.j["ret"]["s"]
        if rty not in INT_TYS:
            return (-INF, INF)
        try:
            an = self.analysis(path)
            r = an.ret if an.ret is not None else ty_range(rty)
            r = meet(r, ty_range(rty))
        except RuntimeError:
            r = ty_range(rty)
        self._ret[path] = r
        return r

    def true_facts(self, path):
        """{term over ('arg', i): interval} valid on every return of the (pure, bool) callee whose value may be true"""
        if path in self._tf:
            return self._tf[path]
        self._tf[path] = {}
        an = self.analysis(path)
        an.collect_ret = []
        an.visit_sites(lambda bb, st, t: None)       # one more pass over the fixpoint to collect the return-place assignments
        sites, an.collect_ret = an.collect_ret, None
        facts = None
        for st, v in sites:
            if an.truth(st, v) is False:
                continue
            st = an.assume(st, v, True) or st
            f = {tm: r for tm, r in st.rng.items() if _only_args(tm)}
            if facts is None:
                facts = f
            else:
                facts = {tm: hull(facts[tm], f[tm]) for tm in facts if tm in f}
        self._tf[path] = facts or {}
        return self._tf[path]

    def is_pure(self, path, stack=()):
        if path in self._pure:
            return self._pure[path]
        fn = self.prog.fn(path)
        if fn is None or path in stack or fn.is_coroutine:
            return False
        self._pure[path] = False
        ok = True
        for i in range(fn.arg_count):
            ty = fn.locals[i + 1]["ty"]
            if ty.get("k") == "ref" and ty.get("mut"):
                ok = False
        if ok:
            for b, t in fn.calls():
                name = callee_of(t)
                if name in PURE_STD or (t.get("callee") or "") in PURE_STD:
                    continue
                if name not in self.prog.fns and (t.get("callee") or "") not in self.prog.fns and not _has_mut_arg(fn, t) \
                        and not any(x in name for x in EFFECTFUL):
                    continue
                tgt = self.prog.fn(name)
                if tgt is not None and self.is_pure(tgt.path, stack + (path,)):
                    continue
                ok = False
                break
        self._pure[path] = ok
        return ok


EFFECTFUL = ("::now", "reqwest", "tokio", "sleep", "atomic", "mpsc", "std::io", "std::fs", "std::env", "rand", "log::", "RefCell", "Cell", "Mutex")


def _has_mut_arg(fn, t):
    for a in t["args"]:
        if a.get("k") in ("copy", "move"):
            l = a["pl"]["l"]
            ty = fn.locals[l]["ty"]
            if not a["pl"]["p"] and ty.get("k") == "ref" and ty.get("mut"):
                return True
            if not a["pl"]["p"] and ty.get("k") in ("ptr",):
                return True
    return False


def _only_args(t):
    """term mentions no frame-local unknowns (ret/phi/loc), only callee arguments and constants"""
    if not isinstance(t, tuple):
        return True
    if t and t[0] in ("ret", "phi", "loc", "unk", "loc2"):
        return False
    return all(_only_args(x) for x in (t if (t and isinstance(t[0], tuple)) else t[1:]))


def _vm_saturating_sub(an, st, t, args):
    v = ("satsub", args[0], args[1])
    an._reg(v, an.place_ty(t["dest"]))
    return v


def _vm_saturating_add(an, st, t, args):
    ty = an.place_ty(t["dest"])
    v = ("satadd", args[0], args[1], ty if ty in INT_TYS else "usize")
    an._reg(v, ty)
    return v


def _vm_min(an, st, t, args):
    v = ("min", args[0], args[1])
    an._reg(v, an.place_ty(t["dest"]))
    return v


def _vm_max(an, st, t, args):
    v = ("max", args[0], args[1])
    an._reg(v, an.place_ty(t["dest"]))
    return v


def _vm_unsigned_abs(an, st, t, args):
    v = ("un", "unsigned_abs", args[0], "i32")
    an._reg(v, an.place_ty(t["dest"]))
    return v


def _vm_pow(an, st, t, args):
    v = ("pow", args[0], args[1])
    an._reg(v, an.place_ty(t["dest"]))
    return v


def _vm_size_of(an, st, t, args):
    sz = t["targs"][0].get("size") if t.get("targs") else None
    if sz is not None:
        return C(int(sz), "usize")
    return None


def _vm_get(an, st, t, args):
    return ("get", args[0], args[1])


def _vm_is_some(an, st, t, args):
    return ("is_some", args[0])


def _vm_is_none(an, st, t, args):
    return mk_not(("is_some", args[0]))


def _vm_eq(an, st, t, args):
    a, b = args
    if repr(b) < repr(a):
        a, b = b, a
    return ("bin", "Eq", a, b, "val")


def _vm_ne(an, st, t, args):
    return mk_not(_vm_eq(an, st, t, args))


VALUE_MODELS = {
    "core::slice::<impl [T]>::get": _vm_get,
    "core::str::<impl str>::get": _vm_get,
    "core::option::Option::<T>::is_some": _vm_is_some,
    "core::option::Option::<T>::is_none": _vm_is_none,
    "<core::option::Option<T> as core::cmp::PartialEq>::eq": _vm_eq,
    "<core::option::Option<T> as core::cmp::PartialEq>::ne": _vm_ne,
    "core::mem::size_of": _vm_size_of,
    "core::cmp::Ord::min": _vm_min,
    "core::cmp::Ord::max": _vm_max,
    "core::cmp::min": _vm_min,
    "core::cmp::max": _vm_max,
}
for _ty in ("u8", "u16", "u32", "u64", "usize"):
    VALUE_MODELS["core::num::<impl %s>::saturating_sub" % _ty] = _vm_saturating_sub
    VALUE_MODELS["core::num::<impl %s>::saturating_add" % _ty] = _vm_saturating_add
for _ty in ("i16", "i32", "i64"):
    VALUE_MODELS["core::num::<impl %s>::unsigned_abs" % _ty] = _vm_unsigned_abs
for _ty in ("u8", "u16", "u32", "u64", "usize", "i32", "i64"):
    VALUE_MODELS["core::num::<impl %s>::pow" % _ty] = _vm_pow
