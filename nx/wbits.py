"""Weighted-bit canonical form of scaled accessors: value = const + sum_k w_k * bit_k(atom), optionally negated
when one further bit is set. Decides equality of bit-weighted sums independent of how the code spells them
(loop over bits, mask-shift-multiply, division by a power of two). Weights are exact dyadic rationals times the
scale, so float accumulation is exact while the sum has < 53 significant bits (checked)."""
from fractions import Fraction
from . import sym
from .sym import INT_TYS


def _single_bit(cond):
    b = sym.bits_of(cond)
    if b is None or len(b) != 1:
        return None
    x = b[0]
    if isinstance(x, tuple) and x and x[0] == "not":
        return ("not", x[1])
    if isinstance(x, tuple):
        return x
    return None


def wb(t):
    """-> (weights {(atom, bit): Fraction}, const Fraction, negbit or None) or None"""
    k = t[0]
    if k == "c" and isinstance(t[1], (int, float)) and not isinstance(t[1], bool):
        return {}, Fraction(t[1]), None
    if k == "uom":
        return wb(t[2])
    if k == "bin":
        op = t[1]
        if op in ("Add", "Sub"):
            a, b = wb(t[2]), wb(t[3])
            if a is None or b is None or a[2] or b[2]:
                return None
            s = 1 if op == "Add" else -1
            w = dict(a[0])
            for key, v in b[0].items():
                w[key] = w.get(key, 0) + s * v
            return {k2: v for k2, v in w.items() if v != 0}, a[1] + s * b[1], None
        if op == "Mul":
            for x, y in ((t[2], t[3]), (t[3], t[2])):
                if sym.is_c(y) and isinstance(y[1], (int, float)):
                    a = wb(x)
                    if a is None:
                        return None
                    c = Fraction(y[1])
                    return {k2: v * c for k2, v in a[0].items()}, a[1] * c, a[2]
            return None
        if op == "Div" and sym.is_c(t[3]) and isinstance(t[3][1], (int, float)) and t[4] in ("f32", "f64"):
            c = Fraction(t[3][1])
            a = wb(t[2])
            if a is None or c == 0:
                return None
            # exact only for powers of two
            if c.numerator != 1 and (c.denominator != 1 or (c.numerator & (c.numerator - 1)) != 0):
                return None
            return {k2: v / c for k2, v in a[0].items()}, a[1] / c, a[2]
        return None
    if k == "un" and t[1] == "Neg":
        a = wb(t[2])
        if a is None or a[2]:
            return None
        return {k2: -v for k2, v in a[0].items()}, -a[1], None
    if k == "cast" and t[2] in INT_TYS and t[3] in ("f32", "f64") + tuple(INT_TYS):
        signed, n = INT_TYS[t[2]]
        bits = sym.bits_of(t[1], n)
        if bits is None:
            inner = wb(t[1]) if t[3] in ("f32", "f64") else None
            return inner
        w, c = {}, Fraction(0)
        for j, b in enumerate(bits):
            wt = Fraction(2) ** j
            if signed and j == n - 1:
                wt = -wt
            if b == 1:
                c += wt
            elif b != 0:
                if not isinstance(b, tuple) or b[0] == "not":
                    return None
                w[b] = w.get(b, 0) + wt
        return w, c, None
    if k == "cast" and t[2] in ("f32", "f64") and t[3] in ("f32", "f64"):
        return wb(t[1])
    if k in ("ite", "cases"):
        if k == "ite":
            cond, x, y = t[1], t[2], t[3]
        else:
            if len(t[3]) != 2:
                return None
            (rs0, t0), (rs1, t1) = t[3]
            cond = sym.mk_in(t[1], t[2], rs1)
            x, y = t1, t0
        b = _single_bit(cond)
        if b is None:
            return None
        if b[0] == "not":
            b = b[1]
            x, y = y, x
        wx, wy = wb(x), wb(y)
        if wx is None or wy is None:
            return None
        if wx[0] == wy[0] and wx[2] == wy[2] and b not in wy[0]:
            w = dict(wy[0])
            d = wx[1] - wy[1]
            if d != 0:
                w[b] = d
            return w, wy[1], wy[2]
        # negate-if-bit: x = -y
        if wy[2] is None and wx[2] is None and wx[0] == {k2: -v for k2, v in wy[0].items()} and wx[1] == -wy[1] and b not in wy[0]:
            return wy[0], wy[1], b
        return None
    return None


def canon(t):
    r = wb(t)
    if r is None:
        return None
    w, c, neg = r
    # exactness guard: all weights integer multiples of a dyadic unit and the total magnitude < 2^53 units
    vals = [abs(v) for v in w.values() if v != 0] + ([abs(c)] if c != 0 else [])
    if vals:
        from math import gcd
        den = 1
        for v in vals:
            den = den * v.denominator // gcd(den, v.denominator)
        total = sum(v * den for v in vals)
        if total >= 2 ** 53:
            return None
    return (tuple(sorted(((repr(k), k, v) for k, v in w.items()), key=lambda x: x[0])), c, neg)


def spec(atom, weights, const=0, negbit=None):
    """weights: {bit index: number}"""
    w = {(atom, i): Fraction(v) for i, v in weights.items()}
    return (tuple(sorted(((repr(k), k, v) for k, v in w.items()), key=lambda x: x[0])), Fraction(const), (atom, negbit) if negbit is not None else None)


def show(c):
    if c is None:
        return "<not a weighted-bit sum>"
    ws, const, neg = c
    parts = ["%s*bit%d" % (float(v), k[1]) for _, k, v in ws]
    s = " + ".join(parts) or "0"
    if const:
        s += " + %s" % float(const)
    if neg:
        s = "(-1)^bit%d * (%s)" % (neg[1], s)
    return s
