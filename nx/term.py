"""R-TERM: classify every natural loop in a scope into a terminating class (see DESIGN §2)."""
from .ir import callee_of


def check_loops(chk, prog, fns, label, allow=None):
    allow = allow or {}
    n = 0
    for p in fns:
        fn = prog.fn(p)
        if fn is None:
            continue
        loops = fn.loops()
        for head, body in sorted(loops.items()):
            n += 1
            cls, why = classify(prog, fn, head, body)
            key = "loop#%d" % sorted(loops).index(head)
            if cls is None and (p + "|" + key) in allow:
                chk.ob("R-TERM", p, True, "allow-table: " + allow[p + "|" + key], fn.where(fn.term(head)["loc"]), key=key)
                continue
            chk.ob("R-TERM", p, cls is not None, ("%s: %s" % (cls, why)) if cls else "loop is in no terminating class: %s" % why,
                   fn.where(fn.term(head)["loc"]), key=key)
    chk.notes.setdefault("loops", {})[label] = n
    return n


FINITE_ITERS = (
    "core::iter::range::<impl core::iter::traits::iterator::Iterator for core::ops::range::Range<A>>::next",
    "<alloc::vec::into_iter::IntoIter<T, A> as core::iter::traits::iterator::Iterator>::next",
    "<core::slice::iter::Iter<'a, T> as core::iter::traits::iterator::Iterator>::next",
    "<core::iter::adapters::enumerate::Enumerate<I> as core::iter::traits::iterator::Iterator>::next",
    "<core::iter::adapters::",
    "<core::slice::iter::",
    "<core::str::iter::",
    "<alloc::collections::vec_deque::iter::",
    "<std::collections::hash::map::",
    "<std::collections::hash::set::",
    "<xml::reader::Events<R> as core::iter::traits::iterator::Iterator>::next",
    "<core::ops::range::RangeInclusive<",
    "core::iter::range::<impl core::iter::traits::iterator::Iterator for core::ops::range::RangeInclusive<A>>::next",
)


def exit_edges(fn, body):
    out = []
    for b in body:
        for s in fn.succ_map()[b]:
            if s not in body:
                out.append((b, s))
    return out


def classify(prog, fn, head, body):
    # (a) iterator loops: some block in the loop calls Iterator::next on a finite iterator, and the loop is left
    #     on the None edge of that call's result; every path around the loop passes through that call
    for b in sorted(body):
        t = fn.term(b)
        if t["t"] == "call":
            name = callee_of(t)
            if (t.get("callee") or "").endswith("Iterator::next") and any(name.startswith(pfx) for pfx in FINITE_ITERS):
                if dominates_backedges(fn, head, body, b):
                    return "iterator", "every iteration calls %s on a finite source" % name.split(" as ")[0][:60]
            if (t.get("callee") or "").endswith("Iterator::next") and name == t.get("callee"):
                # unresolved generic iterator: finite only if the iterator's type is a known finite adaptor
                ity = t["targs"][0]["d"]["s"] if t.get("targs") else ""
                if any(x in ity for x in ("core::ops::range::Range<", "core::slice::", "alloc::vec::into_iter", "core::iter::adapters", "core::str::")):
                    if dominates_backedges(fn, head, body, b):
                        return "iterator", "every iteration calls next() on %s" % ity[:60]
    # (c) stream loops: every iteration performs a successful read of >= 1 byte from the input
    for b in sorted(body):
        t = fn.term(b)
        if t["t"] == "call":
            name = callee_of(t)
            if is_consuming_read(prog, name) and dominates_backedges(fn, head, body, b):
                return "stream", "every iteration must first succeed in %s, which consumes input (finite source => eventually fails)" % name.split("::")[-1]
    # (d) shrinking-slice loops: the loop variable is a slice that every iteration replaces by a strict suffix
    r = shrinking_slice(prog, fn, head, body)
    if r:
        return "shrinking-slice", r
    # (e) counter loops: a test `v < N` (or `v > N`) against a loop-invariant bound lies on every way round the loop and
    #     v strictly increases (decreases) on every back edge
    r = counter_loop(prog, fn, head, body)
    if r:
        return "counter", r
    return None, "no finite iterator, consuming read, shrinking slice or bounded counter dominates the back edge"


def dominates_backedges(fn, head, body, b):
    for (tail, h) in fn.back_edges():
        if h == head and tail in body:
            if not fn.dominates(b, tail) and b != tail:
                return False
    return True


CONSUMERS = {"nexrad_decode::messages::decode_message_header": 28}


def is_consuming_read(prog, name):
    return name in CONSUMERS


def leaves(t, out):
    if isinstance(t, tuple) and t and t[0] == "cases":
        for rs, x in t[3]:
            leaves(x, out)
    elif isinstance(t, tuple) and t and t[0] == "ite":
        leaves(t[2], out)
        leaves(t[3], out)
    else:
        out.append(t)
    return out


_ENG = {}


def _engine(prog):
    from . import interval
    if id(prog) not in _ENG:
        _ENG.clear()
        _ENG[id(prog)] = interval.Engine(prog)
    return _ENG[id(prog)]


def _strip_widen(t):
    from . import sym
    while isinstance(t, tuple) and t and t[0] == "cast" and len(t) == 4 and sym._uwiden(t[2], t[3]):
        t = t[1]
    return t


def _phis(t, head, acc):
    if isinstance(t, tuple) and t:
        if t[0] == "phi" and len(t) == 3 and t[1] == head:
            acc.add(t)
        for x in (t if isinstance(t[0], tuple) else t[1:]):
            if isinstance(x, tuple):
                _phis(x, head, acc)
    return acc


def counter_loop(prog, fn, head, body):
    from . import sym
    try:
        an = _engine(prog).analysis(fn.path)
    except Exception:
        return None
    pre = {}

    def grab(bb, st, t):
        pre[bb] = st
    an.visit_sites(grab)
    tails = [tail for (tail, h) in fn.back_edges() if h == head and tail in body]
    if not tails:
        return None
    outs_at_head = []
    for tail in tails:
        st = an.entry.get(tail)
        if st is None:
            continue        # unreachable back edge
        for succ, s2 in an.step_block(tail, st):
            if succ == head:
                outs_at_head.append(s2)
    if not outs_at_head:
        return None
    for b in sorted(body):
        t = fn.term(b)
        if t["t"] != "switch" or t.get("dty") != "bool":
            continue
        if not [s for s in fn.succ_map()[b] if s not in body] or not dominates_backedges(fn, head, body, b) or b not in pre:
            continue
        st = pre[b]
        cond = an.operand(st, t["discr"])
        tgt = {int(v): x for v, x in t["arms"]}
        cont_true = tgt.get(1, t["otherwise"]) in body
        cont_false = tgt.get(0, t["otherwise"]) in body
        if cont_true == cont_false:
            continue
        neg = not cont_true
        while cond[0] == "not":
            cond, neg = cond[1], not neg
        want = None      # ('inc'|'dec', counter phi, bound)
        if cond[0] == "bin" and cond[1] in ("Lt", "Le"):
            a, bnd = _strip_widen(cond[2]), _strip_widen(cond[3])
            # continue while a < b (neg: while !(a < b), i.e. b <= a)
            lo_side, hi_side = (a, bnd) if not neg else (bnd, a)
            if lo_side[0] == "phi" and lo_side[1] == head and not _phis(hi_side, head, set()):
                want = ("inc", lo_side, hi_side)
            elif hi_side[0] == "phi" and hi_side[1] == head and not _phis(lo_side, head, set()):
                want = ("dec", hi_side, lo_side)
        elif cond[0] == "in":
            x = _strip_widen(cond[1])
            rs = cond[3] if not neg else sym.rs_compl(cond[3], cond[2])
            lo, hi = sym.ty_range(cond[2])
            if x[0] == "phi" and x[1] == head and len(rs) == 1:
                if rs[0][1] == hi and rs[0][0] > lo:
                    want = ("dec", x, sym.C(rs[0][0], cond[2]))
                elif rs[0][0] == lo and rs[0][1] < hi:
                    want = ("inc", x, sym.C(rs[0][1], cond[2]))
        if want is None:
            continue
        kind, phi, bound = want
        v = phi[2]
        okk = True
        for s2 in outs_at_head:
            nv = s2.val.get(v)
            step = None
            if nv is not None and nv[0] == "bin" and nv[1] in ("Add", "Sub") and len(nv) == 5:
                if nv[1] == "Add" and kind == "inc":
                    step = nv[3] if nv[2] == phi else (nv[2] if nv[3] == phi else None)
                elif nv[1] == "Sub" and kind == "dec" and nv[2] == phi:
                    step = nv[3]
            if step is None or an.range_of(s2, step)[0] < 1:
                okk = False
                break
        if okk:
            name = fn.local_name(v) or "_%d" % v
            return "`%s` strictly %s on every back edge and every iteration first tests it against the loop-invariant bound" % (name, "increases" if kind == "inc" else "decreases")
    return None


def shrinking_slice(prog, fn, head, body):
    """`while !rest.is_empty() { ...; rest = <strict suffix of rest, or the empty slice> }`: the loop is left when a
    slice-typed local is empty, and on every path back to the head that local has become either a constant empty slice
    or the second half of `rest.split_at_checked(n)` / `rest.split_at(n)` with n >= 1 (so its length strictly decreases)"""
    from . import sym, interval
    # candidate locals: slice-typed locals assigned inside the loop
    cands = set()
    for b in body:
        for s in fn.blocks[b]["stmts"]:
            if s["s"] == "assign" and not s["dst"]["p"] and fn.locals[s["dst"]["l"]]["ty"]["s"].startswith("&[") and fn.locals[s["dst"]["l"]].get("user"):
                cands.add(s["dst"]["l"])
    for l in sorted(cands):
        ev = sym.Evaluator(prog)
        try:
            tree = ev.eval_loop_body(fn, head, body, [l])
        except sym.Undecided:
            continue
        R = sym.P("L%d" % l)
        # top of the tree must be the emptiness test of R with the exit on `true`
        if not (tree[0] in ("cases", "ite")):
            continue
        ls = leaves(tree, [])
        nexts = [x for x in ls if x[0] == "next"]
        exits = [x for x in ls if x[0] == "exit"]
        if not nexts or not exits:
            continue
        # a natural-number measure (the slice's length) that strictly decreases on every way round the loop is enough,
        # whatever the exit test is; when the loop is known to be left on an empty slice, `len >= 1` may be used inside
        guard = R if _exits_when_empty(tree, R) else None
        okk = True
        for nx in nexts:
            for v in leaves(nx[1][0], []):
                if not _strict_suffix_or_empty(v, R, ev, guard):
                    okk = False
        if okk:
            return "on every back edge local `%s` is a strict suffix of itself (split at n >= 1) or the empty slice: its length strictly decreases" % (fn.local_name(l) or l)
    return None


def _exits_when_empty(tree, R):
    c = tree[1] if tree[0] == "ite" else tree[1]
    def is_empty_call(x):
        return x[0] == "call" and x[1].endswith("::is_empty") and x[2][0] == R
    if tree[0] == "ite":
        return is_empty_call(tree[1]) and tree[2][0] == "exit"
    if tree[0] == "cases" and is_empty_call(tree[1]):
        for rs, x in tree[3]:
            if any(lo <= 1 <= hi for lo, hi in rs):
                return x[0] == "exit"
    return False


def _strict_suffix_or_empty(v, R, ev, guard=None):
    from . import sym
    if v[0] == "array" and len(v[1]) == 0:
        return True
    if v[0] == "repeat" and v[2] == 0:
        return True
    # second component of the Some-payload of R.split_at_checked(n), n >= 1
    if v[0] == "fld" and v[2] == "1":
        inner = v[1]
        if inner[0] == "vfld" and inner[2] == "Some":
            call = inner[1]
            if call[0] == "call" and call[1].endswith("::split_at_checked") and call[2][0] == R:
                return _lower_bound(call[2][1], guard) >= 1
        if inner[0] == "call" and inner[1].endswith("::split_at") and inner[2][0] == R:
            return _lower_bound(inner[2][1], guard) >= 1
    return False


def _lower_bound(t, R=None):
    """syntactic lower bound of an unsigned term (R: the loop's slice, known to be non-empty on the way round the loop)"""
    if t[0] == "c" and isinstance(t[1], int):
        return t[1]
    if t[0] in ("cases", "ite"):
        return min(_lower_bound(x, R) for x in leaves(t, []))
    if R is not None and (t == ("len", R) or (t[0] == "call" and t[1].endswith("::len") and t[2] == (R,))):
        return 1
    if t[0] == "call" and (t[1].endswith("::min") or t[1] == "core::cmp::min") and len(t[2]) == 2:
        return min(_lower_bound(t[2][0], R), _lower_bound(t[2][1], R))
    if t[0] == "cast" and len(t) == 4:
        from . import sym as _s
        if _s._uwiden(t[2], t[3]):
            return _lower_bound(t[1], R)
    if t[0] == "call" and t[1].endswith("::saturating_add"):
        return max(_lower_bound(t[2][0], R), _lower_bound(t[2][1], R))
    if t[0] == "bin" and t[1] == "Add":
        return _lower_bound(t[2], R) + _lower_bound(t[3], R)
    if t[0] == "call" and t[1].endswith("::max"):
        return max(_lower_bound(t[2][0], R), _lower_bound(t[2][1], R))
    return 0


def check_seek_discipline(chk, prog, fns, eng):
    """every Seek::seek in the scope either jumps to `entry position + unsigned offset` (never before the point where
    the function started reading) or rewinds by no more than the read that immediately precedes it; hence the stream
    position at the end of each decode call is >= its position at entry"""
    from . import layout
    n = 0
    for p in fns:
        fn = prog.fn(p)
        if fn is None:
            continue
        has = any(callee_of(t) == "std::io::Seek::seek" for _, t in fn.calls())
        if not has:
            continue
        an = eng.analysis(p)
        idx = [0]

        def visit(bb, st, t, an=an, fn=fn, p=p, idx=idx):
            if t["t"] != "call" or callee_of(t) != "std::io::Seek::seek":
                return
            k = idx[0]
            idx[0] += 1
            where = fn.where(t["loc"])
            arg = an.operand(st, t["args"][1])
            okk, why = False, "unrecognised seek argument %r" % (arg[:3],)
            if arg[0] == "adt" and arg[1] == "std::io::SeekFrom":
                v = arg[3][0][1]
                if arg[2] == "Start":
                    base = None
                    if v[0] == "bin" and v[1] == "Add":
                        for a, b in ((v[2], v[3]), (v[3], v[2])):
                            if a[0] == "okval" and a[1][0] == "ret" and a[1][2] == 0:
                                ct = fn.blocks[0]["term"]
                                if ct["t"] == "call" and callee_of(ct) == "std::io::Seek::stream_position" and an.range_of(st, b)[0] >= 0:
                                    base = b
                    okk = base is not None
                    why = "absolute seek to (position at function entry) + unsigned offset" if okk else "absolute seek whose target is not entry position + unsigned offset: %r" % (v[:3],)
                elif arg[2] == "Current":
                    r = an.range_of(st, v)
                    back = -r[0] if r[0] < 0 else 0
                    size = preceding_read_size(prog, fn, bb)
                    okk = back <= size
                    why = "relative seek by %s after a read of %d bytes" % (r, size)
                else:
                    why = "SeekFrom::End is not allowed in a decoder"
            chk.ob("R-TERM", p, okk, "seek discipline: " + why, where, key="seek#%d" % k)

        an.visit_sites(visit)
        n += idx[0]
    return n


def preceding_read_size(prog, fn, bb):
    """wire size of the struct deserialized by the nearest dominating `deserialize::<R, T>` call whose result reaches bb
    without another reader call in between"""
    from . import layout
    dom = fn.dominators()
    idom = fn._idom
    b = bb
    while b != 0:
        b = idom[b]
        t = fn.term(b)
        if t["t"] == "call":
            name = callee_of(t)
            if name.endswith("::util::deserialize"):
                for ta in t.get("targs", []):
                    sig, w = layout.ty_sig(ta["d"], prog)
                    if sig is not None and ta["d"].get("k") == "adt":
                        return w
                return 0
            if "std::io::" in name:
                return 0
    return 0
