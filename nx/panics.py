"""R-PANIC / R-ALLOC: every panic source reachable from a set of entry points is an obligation that
must be discharged by INTERVAL (or be structurally impossible); unknown callees fail closed."""
import re
from . import interval, sym
from .ir import callee_of
from .interval import INF
from rules.tables import lib

def _is_existing_length(t):
    """the term is len(x) (possibly through value-preserving casts) of some collection"""
    while isinstance(t, tuple) and t and t[0] == "cast" and len(t) == 4 and sym._uwiden(t[2], t[3]):
        t = t[1]
    return isinstance(t, tuple) and bool(t) and (t[0] == "len" or (t[0] == "call" and t[1].endswith("::len") and len(t[2]) == 1))


ALLOC_CAP = 1 << 24      # 16 MiB: every allocation size derived from 8/16-bit wire fields stays far below

DATE_DELTA_MS = 8_000_000_000_000_000      # |delta| that keeps a date in [1900, 2100] inside chrono's ±262 000-year range
TD_MAX_MS = (1 << 63) - 1


def local_adts_in(ty, out):
    if not isinstance(ty, dict):
        return out
    if ty.get("k") == "adt" and ty.get("local"):
        out.add(ty["adt"])
    for a in ty.get("args", []) or []:
        local_adts_in(a, out)
    if "elem" in ty:
        local_adts_in(ty["elem"], out)
    return out


def fmt_impls(prog, adt_path):
    out = []
    for p, f in prog.fns.items():
        if f.j.get("impl_self") == adt_path and p.endswith("::fmt") and (f.j.get("impl_trait") or "").startswith("core::fmt::"):
            out.append(p)
    return out


def serde_fns(prog, adt_path):
    """the derived Deserialize machinery of a wire struct (reached through bincode, outside the visible call graph)"""
    key = "Deserialize<'de> for %s>" % adt_path
    # bincode decodes a struct as a fixed-length tuple: deserialize_struct -> deserialize_tuple -> Visitor::visit_seq;
    # visit_map and the field-identifier visitor are never invoked by it (trusted base, bincode 1.3 de/mod.rs)
    return [p for p in prog.fns if key in p and not p.endswith("::visit_map") and "__FieldVisitor" not in p and "__Field " not in p
            and "for __Field" not in p]


def scope(prog, entries, extra_edges=True):
    """functions reachable from the entry points over resolved local calls, closures, Debug/Display
    impls of formatted local types, and the serde machinery of deserialized local types"""
    seen = []
    seen_set = set()
    edges = {}
    work = list(entries)
    while work:
        p = work.pop()
        if p in seen_set:
            continue
        fn = prog.fn(p)
        if fn is None:
            continue
        seen_set.add(p)
        seen.append(p)
        outs = set()
        for c in prog.closures_of.get(p, []):
            outs.add(c)
        for b, t in fn.calls():
            name = callee_of(t)
            for cand in (name, t.get("callee")):
                if cand and cand in prog.fns:
                    outs.add(cand)
            # trait-bound calls resolved only at monomorphisation: link generic type args that are local types
            decl = t.get("callee") or ""
            if decl.startswith("core::fmt::rt::Argument") or decl.startswith("core::fmt::builders"):
                pass
            for ta in t.get("targs", []):
                for a in local_adts_in(ta["d"], set()):
                    if decl.startswith("core::fmt::rt::Argument"):
                        outs.update(fmt_impls(prog, a))
                    if "deserialize" in decl:
                        outs.update(serde_fns(prog, a))
        for b, i, s in fn.stmts():
            if s.get("rv") == "cast" and "Unsize" in s.get("ck", "") and "dyn core::fmt::" in s["ty"]["s"]:
                for a in local_adts_in(s["from"], set()):
                    outs.update(fmt_impls(prog, a))
        edges[p] = sorted(outs)
        work.extend(edges[p])
    return seen, edges


def find_cycle(edges):
    color = {}
    for root in edges:
        if root in color:
            continue
        stack = [(root, iter(edges.get(root, [])))]
        color[root] = 1
        while stack:
            n, it = stack[-1]
            adv = False
            for m in it:
                if color.get(m) == 1:
                    return [n, m]
                if m not in color and m in edges:
                    color[m] = 1
                    stack.append((m, iter(edges[m])))
                    adv = True
                    break
            if not adv:
                color[n] = 2
                stack.pop()
    return None


_CEL = {}


def closure_element_lengths(prog):
    """A closure handed to an adaptor of `slice.chunks_exact(n)` / `windows(n)` (n constant) receives slices of exactly n
    items: {closure path: {('len', ('arg', 2)): (n, n)}}. Decided from the creating function's MIR: the adaptor call's receiver
    is (a move of) the local the chunking call wrote, its closure argument is the local the closure aggregate wrote, and the
    closure is created only there."""
    if id(prog) in _CEL:
        return _CEL[id(prog)]
    out, sites = {}, {}
    ADAPT = ("::map", "::for_each", "::filter_map", "::try_for_each", "::filter", "::all", "::any", "::flat_map", "::find_map")
    for p, f in prog.fns.items():
        chunked, clos, moves, consts = {}, {}, {}, {}
        for b, i, st in f.stmts():
            if st["s"] != "assign" or st["dst"]["p"]:
                continue
            if st.get("rv") == "agg" and st.get("ak") == "closure":
                clos[st["dst"]["l"]] = st["def"]
                sites[st["def"]] = sites.get(st["def"], 0) + 1
            if st.get("rv") == "use" and st["a"].get("k") in ("move", "copy") and not st["a"]["pl"]["p"]:
                moves[st["dst"]["l"]] = st["a"]["pl"]["l"]
            if st.get("rv") == "use" and st["a"].get("k") == "const" and isinstance(st["a"].get("int"), int):
                consts[st["dst"]["l"]] = st["a"]["int"]
        for b, t in f.calls():
            if callee_of(t) in ("core::mem::size_of", "std::mem::size_of") and not t["dest"]["p"] and t.get("targs") and isinstance(t["targs"][0].get("size"), int):
                consts[t["dest"]["l"]] = t["targs"][0]["size"]
        for b, t in f.calls():
            name = callee_of(t)
            kind = name.rsplit("::", 1)[-1]
            if name.startswith("core::slice::<impl [T]>::") and kind in ("chunks_exact", "windows") and len(t["args"]) == 2 and not t["dest"]["p"]:
                a1 = t["args"][1]
                n = a1.get("int") if a1.get("k") == "const" else None
                if n is None and a1.get("pl") and not a1["pl"]["p"]:
                    l = a1["pl"]["l"]
                    seen = set()
                    while l in moves and l not in seen:
                        seen.add(l)
                        l = moves[l]
                    n = consts.get(l)
                if isinstance(n, int) and n > 0:
                    chunked[t["dest"]["l"]] = n
            if name.endswith("::into_iter") and len(t["args"]) == 1 and not t["dest"]["p"]:
                a = t["args"][0].get("pl", {})
                if a and not a.get("p") and a.get("l") in chunked:
                    chunked[t["dest"]["l"]] = chunked[a["l"]]

        def root(l):
            seen = set()
            while l in moves and l not in seen:
                seen.add(l)
                l = moves[l]
            return l
        for b, t in f.calls():
            name = callee_of(t)
            if not any(name.endswith(a) for a in ADAPT) or len(t["args"]) != 2:
                continue
            r = t["args"][0].get("pl", {})
            c = t["args"][1].get("pl", {})
            if not r or r.get("p") or not c or c.get("p"):
                continue
            rl, cl = root(r["l"]), root(c["l"])
            if rl in chunked and cl in clos:
                out.setdefault(clos[cl], []).append(chunked[rl])
    # every place the closure is created hands it to such an adaptor, and all agree on n (a helper and its inlined copies)
    res = {c: {("len", ("arg", 2)): (ns[0], ns[0])} for c, ns in out.items() if len(set(ns)) == 1 and sites.get(c) == len(ns)}
    _CEL[id(prog)] = res
    return res


class PanicChecker:
    def __init__(self, chk, prog, rule="R-PANIC", allow=None, param_rng=None, exempt_macros=(), seeds=None):
        self.chk = chk
        self.prog = prog
        self.eng = interval.Engine(prog)
        self.rule = rule
        self.allow = allow or {}
        self.param_rng = param_rng or {}
        self.seeds = dict(seeds or {})     # {fn path: {term: range}} stated input domains
        for cpath, facts in closure_element_lengths(prog).items():
            merged = dict(facts)
            merged.update(self.seeds.get(cpath, {}))
            self.seeds[cpath] = merged
        self.counts = {"functions": 0, "asserts": 0, "calls": 0, "partial": 0, "alloc": 0, "panic_calls": 0}
        self.unclassified = set()

    def run(self, entries, label):
        fns, edges = scope(self.prog, entries)
        missing = [e for e in entries if self.prog.fn(e) is None]
        for m in missing:
            self.chk.blind(self.rule, m, "entry point not found (renamed or removed)")
        for p in fns:
            if getattr(self, "only", None) and p not in self.only:
                continue
            self.check_fn(p)
        self.chk.notes.setdefault("panic_scopes", {})[label] = {"entries": len(entries), "functions": len(fns), **self.counts}
        for u in sorted(self.unclassified):
            self.chk.blind(self.rule, u, "external callee is in none of the library tables (panic / partial / total): classify it")
        return fns, edges

    def check_fn(self, path):
        fn = self.prog.fn(path)
        self.counts["functions"] += 1
        try:
            an = self.eng.analysis(path, self.param_rng.get(path), self.seeds.get(path))
        except RuntimeError as e:
            self.chk.blind(self.rule, path, "interval analysis failed: %s" % e)
            return
        seen_sites = {}

        def visit(bb, st, t):
            k = t["t"]
            where = "%s:%s" % (t["loc"]["file"], t["loc"]["line"])
            if k == "assert":
                ak = t["msg"]["ak"]
                if ak.startswith("Resumed"):
                    return
                self.counts["asserts"] += 1
                c = an.operand(st, t["cond"])
                tr = an.truth(st, c)
                okk = (tr == t["expected"])
                detail = describe_assert(an, st, t)
                key = "%s#%d" % (ak, sum(1 for k2 in seen_sites if k2.startswith(ak)))
                seen_sites[key] = 1
                self.ob(path, okk, "%s: %s" % (ak, detail), where, "assert:%s" % key)
            elif k == "call":
                self.counts["calls"] += 1
                name = callee_of(t)
                decl = t.get("callee") or name
                if name in self.prog.fns or decl in self.prog.fns:
                    tgt = name if name in self.prog.fns else decl
                    if tgt in getattr(self, "ctx_callees", ()):
                        # context-sensitive check of a small callee: its obligations under this call site's argument ranges
                        args = [an.operand(st, a) for a in t["args"]]
                        pr = {i + 1: an.range_of(st, a) for i, a in enumerate(args)}
                        pr = {k: v for k, v in pr.items() if v != (-INF, INF)}
                        sub = PanicChecker(_Collector(), self.prog, rule=self.rule)
                        sub.eng = self.eng
                        sub.param_rng = {tgt: pr}
                        sub.check_fn(tgt)
                        n = sum(1 for k2 in seen_sites if k2.startswith("ctx:" + tgt))
                        seen_sites["ctx:%s#%d" % (tgt, n)] = 1
                        bad = [o for o in sub.chk.obs if not o[0]]
                        self.ob(path, not bad, "call of %s with arguments in %s: %s" % (tgt.split("::")[-2] + "::" + tgt.split("::")[-1], pr,
                                "its assertions hold" if not bad else bad[0][1]), where, "ctx:%s#%d" % (tgt, n))
                    return
                if name == "<indirect>":
                    return
                kind, rule = lib.classify(name)
                if kind == "unclassified" and decl != name:
                    kind, rule = lib.classify(decl)
                args = [an.operand(st, a) for a in t["args"]]
                short = name if len(name) < 70 else name[:67] + "..."
                n = sum(1 for k2 in seen_sites if k2.startswith(short))
                seen_sites["%s#%d" % (short, n)] = 1
                site = "%s#%d" % (short, n)
                if kind == "panic":
                    self.counts["panic_calls"] += 1
                    macro = ",".join(t["loc"].get("exp", [])) or "call"
                    self.ob(path, False, "reachable panic (%s) via %s" % (macro, short), where, "panic:%s" % site)
                elif kind == "unwrap":
                    self.counts["panic_calls"] += 1
                    okk = unwrap_safe(an, st, args)
                    self.ob(path, okk, "%s on a value not known to be Some/Ok" % short.split("::")[-1], where, "unwrap:%s" % site)
                elif kind == "partial":
                    self.counts["partial"] += 1
                    okk, why = PRE[rule](an, st, t, args)
                    self.ob(path, okk, "%s precondition (%s): %s" % (short, rule, why), where, "pre:%s" % site)
                elif kind == "unclassified":
                    self.unclassified.add(name)
                # allocation sites (R-ALLOC)
                if name in ("alloc::vec::from_elem", "alloc::vec::Vec::<T>::with_capacity", "alloc::vec::Vec::<T, A>::reserve",
                            "alloc::string::String::with_capacity", "alloc::vec::Vec::<T, A>::resize"):
                    self.counts["alloc"] += 1
                    sz = args[-1] if name != "alloc::vec::from_elem" else args[1]
                    r = an.range_of(st, sz)
                    if r[1] > ALLOC_CAP and _is_existing_length(sz):
                        # sized after a collection that already exists (`Vec::with_capacity(xs.len())`): no more than is already held
                        self.ob(path, True, "allocation sized by the length of an existing collection", where, "alloc:%s" % site, rule="R-ALLOC")
                        return
                    self.ob(path, r[1] <= ALLOC_CAP, "allocation size in [%s, %s] must be bounded by a constant (cap %d elements)" % (r[0], r[1], ALLOC_CAP),
                            where, "alloc:%s" % site, rule="R-ALLOC")

        an.visit_sites(visit)

    def ob(self, path, okk, detail, where, key, rule=None):
        kinds = getattr(self, "kinds", None)
        if kinds and not any(key.startswith(k) for k in kinds):
            return
        full = "%s|%s" % (path, key)
        if not okk and full in self.allow:
            self.chk.ob(rule or self.rule, path, True, "allow-table: %s (%s)" % (self.allow[full], detail), where, key=key)
            return
        self.chk.ob(rule or self.rule, path, okk, detail, where, key=key)


class _Collector:
    """minimal stand-in for report.Check used for context-sensitive sub-checks"""
    def __init__(self):
        self.obs = []
        self.notes = {}

    def ob(self, rule, anchor, ok, detail="", where=None, key=None):
        self.obs.append((ok, detail))

    def blind(self, *a, **k):
        self.obs.append((False, "undecided"))


def describe_assert(an, st, t):
    m = t["msg"]
    if m["ak"] == "Overflow":
        a, b = an.operand(st, m["a"]), an.operand(st, m["b"])
        return "%s of %s and %s" % (m["op"], an.range_of(st, a), an.range_of(st, b))
    if m["ak"] == "BoundsCheck":
        i, l = an.operand(st, m["index"]), an.operand(st, m["len"])
        return "index %s, len %s" % (an.range_of(st, i), an.range_of(st, l))
    if "a" in m:
        return "operand %s" % (an.range_of(st, an.operand(st, m["a"])),)
    return ""


def unwrap_safe(an, st, args):
    v = args[0]
    return v[0] == "adt" and v[2] in ("Some", "Ok")


# ---------------------------------------------------------------- preconditions of partial library functions
def _len_of(an, st, s):
    v = ("len", s)
    if s[0] == "array":
        return (len(s[1]), len(s[1]))
    if s[0] == "repeat" and s[2] is not None:
        return (s[2], s[2])
    return an.range_of(st, v)


def _range_bounds(r):
    """(start, end, inclusive) terms of a Range* aggregate, None for an open side"""
    if r[0] != "adt":
        return None
    f = dict(r[3])
    n = r[1].split("::")[-1]
    if n == "Range":
        return f.get("start"), f.get("end"), False
    if n == "RangeFrom":
        return f.get("start"), None, False
    if n == "RangeTo":
        return None, f.get("end"), False
    if n == "RangeFull":
        return None, None, False
    if n == "RangeToInclusive":
        return None, f.get("end"), True
    return None


def pre_slice_index(an, st, t, args):
    s, idx = args[0], args[1]
    ln = _len_of(an, st, s)
    rb = _range_bounds(idx)
    lent = ("len", s)
    if rb is None:
        r = an.range_of(st, idx)
        if r[1] < ln[0] or ("lt", idx, lent) in st.rel or an.le(st, idx, lent, strict=True):
            return True, "index %s < len %s" % (r, ln)
        return False, "index in %s, length in %s" % (r, ln)
    start, end, incl = rb
    if end is not None:
        re_ = an.range_of(st, end)
        lim = ln[0] - (1 if incl else 0)
        if not (re_[1] <= lim or ("le", end, lent) in st.rel or (not incl and ("lt", end, lent) in st.rel) or an.le(st, end, lent, strict=incl)):
            return False, "range end in %s, length in %s" % (re_, ln)
    if start is not None:
        rs = an.range_of(st, start)
        if end is not None:
            re_ = an.range_of(st, end)
            if not (rs[1] <= re_[0] or ("le", start, end) in st.rel or ("lt", start, end) in st.rel or an.le(st, start, end)):
                return False, "range start in %s may exceed end in %s" % (rs, re_)
        else:
            if not (rs[1] <= ln[0] or ("le", start, lent) in st.rel or ("lt", start, lent) in st.rel or an.le(st, start, lent)):
                return False, "range start in %s, length in %s" % (rs, ln)
    return True, "range within length %s" % (ln,)


def pre_str_index(an, st, t, args):
    return False, "slicing a str panics off a char boundary; only checked `get` is total on arbitrary text"


def pre_copy_from_slice(an, st, t, args):
    a, b = _len_of(an, st, args[0]), _len_of(an, st, args[1])
    if a[0] == a[1] == b[0] == b[1]:
        return True, "both lengths %s" % a[0]
    return False, "destination length %s, source length %s" % (a, b)


def pre_split_at(an, st, t, args):
    ln = _len_of(an, st, args[0])
    m = an.range_of(st, args[1])
    if m[1] <= ln[0] or ("le", args[1], ("len", args[0])) in st.rel or an.le(st, args[1], ("len", args[0])):
        return True, "mid %s <= len %s" % (m, ln)
    return False, "mid in %s, length in %s" % (m, ln)


def pre_nonzero_arg1(an, st, t, args):
    r = an.range_of(st, args[1])
    return (r[0] > 0, "argument in %s must be non-zero" % (r,))


def pre_abs(an, st, t, args):
    r = an.range_of(st, args[0])
    ty = re.search(r"impl (i\d+|isize)", callee_of(t)).group(1)
    lo = sym.ty_range(ty)[0]
    return (r[0] > lo, "argument in %s must exclude %s::MIN" % (r, ty))


def pre_pow(an, st, t, args):
    b, e = an.range_of(st, args[0]), an.range_of(st, args[1])
    ty = re.search(r"impl ([iu]\d+|[iu]size)", callee_of(t)).group(1)
    lo, hi = sym.ty_range(ty)
    if INF in (abs(b[0]), abs(b[1]), abs(e[1])):
        return False, "unbounded base or exponent"
    try:
        m = max(abs(b[0]), abs(b[1])) ** e[1]
    except OverflowError:
        return False, "overflow"
    return (m <= hi, "base %s ^ exponent %s <= %s::MAX" % (b, e, ty))


def pre_timedelta_ctor(an, st, t, args):
    r = an.range_of(st, args[0])
    unit = interval.MS[callee_of(t)]
    lim = TD_MAX_MS // unit
    return (-lim <= r[0] and r[1] <= lim, "argument in %s must be within +-%d" % (r, lim))


def pre_timedelta_ms(an, st, t, args):
    r = an.range_of(st, args[0])
    return (r[0] >= -TD_MAX_MS, "argument in %s must exceed i64::MIN" % (r,))


def _delta_ms(an, st, d):
    if d[0] == "ms":
        return an.range_of(st, d)
    return (-INF, INF)


def pre_date_plus_delta(an, st, t, args):
    base, d = args[0], args[1]
    r = _delta_ms(an, st, d)
    # the base must be a calendar date built from in-range constants (from_ymd_opt with constant arguments)
    ok_base = is_const_date(an, st, base)
    if ok_base and -DATE_DELTA_MS <= r[0] and r[1] <= DATE_DELTA_MS:
        return True, "constant base date + delta in %s ms" % (r,)
    return False, "date + delta of %s ms (base %s) may leave chrono's representable range" % (r, "constant" if ok_base else "not a constant date")


def is_const_date(an, st, base):
    """base is `from_ymd_opt(c1, c2, c3)?` with constant year in 1000..=3000"""
    b = base
    while b[0] in ("vfld", "down", "okval", "someval", "try"):
        b = b[1]
    if b[0] == "ret" and b[1] == an.fn.path:
        blk = an.fn.blocks[b[2]]
        t = blk["term"]
        if t["t"] == "call" and callee_of(t).endswith("NaiveDate::from_ymd_opt"):
            ys = [sym_int(a) for a in t["args"]]
            return all(v is not None for v in ys) and 1000 <= ys[0] <= 3000
        # `?` on the option: the value flows through Try::branch
        if t["t"] == "call" and "Try" in callee_of(t) and t["args"]:
            a0 = t["args"][0]
            if a0.get("k") in ("copy", "move") and not a0["pl"]["p"]:
                src = an.entry.get(b[2])
                if src is not None:
                    v = src.val.get(a0["pl"]["l"])
                    if v is not None:
                        return is_const_date(an, st, v)
    return False


def sym_int(o):
    if o.get("k") == "const" and "int" in o:
        return int(o["int"])
    return None


def pre_datetime_plus_delta(an, st, t, args):
    r = _delta_ms(an, st, args[1])
    return False, "DateTime + delta of %s ms: the base instant is not bounded" % (r,)


def pre_instant_plus(an, st, t, args):
    return False, "Instant + Duration may overflow"


def pre_vec_index(an, st, t, args):
    return False, "partial library call; no discharge rule"


PRE = {"slice_index": pre_slice_index, "str_index": pre_str_index, "copy_from_slice": pre_copy_from_slice, "split_at": pre_split_at,
       "nonzero_arg1": pre_nonzero_arg1, "abs": pre_abs, "pow": pre_pow, "timedelta_ctor": pre_timedelta_ctor, "timedelta_ms": pre_timedelta_ms,
       "date_plus_delta": pre_date_plus_delta, "datetime_plus_delta": pre_datetime_plus_delta, "instant_plus": pre_instant_plus,
       "vec_index": pre_vec_index}


def check_no_panic(chk, prog, entries, label, allow=None, param_rng=None, rule="R-PANIC", seeds=None, only=None, ctx_callees=(), kinds=None):
    pc = PanicChecker(chk, prog, rule=rule, allow=allow, param_rng=param_rng, seeds=seeds)
    pc.kinds = kinds
    pc.only = only
    pc.ctx_callees = set(ctx_callees)
    return pc.run(entries, label)


# ---- R-ALLOC (2): growth is paid for by input ------------------------------------------------------------------------
import re as _re
_ALLOC_RE = _re.compile(r"(^alloc::vec::from_elem$|::with_capacity$|::reserve(_exact)?$|::resize(_with)?$|::push(_str|_back|_front)?$|::extend(_from_slice)?$"
                        r"|::insert$|::collect$|::to_vec$|::to_owned$|::to_string$|^alloc::fmt::format|::repeat$|::append$)")
_READ_RE = _re.compile(r"(^std::io::Read::|^std::io::Seek::|^<.* as std::io::(Read|Seek)>::|^nexrad_decode::util::deserialize|^bincode::)")
_RANGE_ADAPTORS = _re.compile(r"^core::iter::traits::iterator::Iterator::(map|for_each|filter_map|flat_map|fold|try_fold|try_for_each|scan|map_while|inspect)$")


def _summaries(prog, fns, edges):
    direct_a, direct_r = {}, {}
    for p in fns:
        fn = prog.fn(p)
        names = [callee_of(t) for _b, t in fn.calls()] + [t.get("callee") or "" for _b, t in fn.calls()]
        direct_a[p] = any(_ALLOC_RE.search(n) for n in names)
        direct_r[p] = any(_READ_RE.search(n) for n in names)
    def close(direct):
        out = dict(direct)
        ch = True
        while ch:
            ch = False
            for p in fns:
                if not out[p] and any(out.get(q) for q in edges.get(p, [])):
                    out[p] = True
                    ch = True
        return out
    return close(direct_a), close(direct_r)


def check_unpaid_growth(chk, prog, fns, edges, label):
    """A loop or iterator adaptor driven by a numeric range runs as often as a number says, not as often as there is input:
    whatever it allocates must be paid for by a stream read inside the same iteration (so that a short input stops it).
    Loops over collections that already exist are paid for by what is already held."""
    allocs, reads = _summaries(prog, fns, edges)
    n = 0
    def is_a(name):
        return bool(_ALLOC_RE.search(name)) or allocs.get(name, False)
    def is_r(name):
        return bool(_READ_RE.search(name)) or reads.get(name, False)
    for p in fns:
        fn = prog.fn(p)
        cl = prog.closures_of.get(p, [])
        for head, body in sorted(fn.loops().items()):
            calls = [(b, t) for b, t in fn.calls() if b in body]
            rng = False
            for _b, t in calls:
                nm = callee_of(t)
                tys = " ".join(ta["d"].get("s", "") for ta in t.get("targs", []))
                if nm.endswith("::next") and ("core::ops::range::Range" in nm or "core::ops::range::Range" in tys.split(",")[0]):
                    rng = True
            if not rng:
                # a counter loop (`while i < n { ..; i += 1 }`) runs as often as a number says, too
                from . import term as _term
                try:
                    rng = _term.classify(prog, fn, head, body)[0] == "counter"
                except Exception:
                    rng = False
            if not rng:
                continue
            n += 1
            names = [x for _b, t in calls for x in (callee_of(t), t.get("callee") or "")]
            # closures built inside the loop run inside it (handed to an adaptor such as try_for_each)
            names += [st["def"] for b, _i, st in fn.stmts() if b in body and st.get("s") == "assign" and st.get("rv") == "agg" and st.get("ak") == "closure" and st.get("def")]
            a = [x for x in names if is_a(x)]
            r = any(is_r(x) for x in names)
            chk.ob("R-ALLOC", p, not a or r, "range-driven loop: allocations inside it are paid for by a stream read in the same iteration" if not a else
                   ("range-driven loop allocates (%s) and reads input in the same iteration" % a[0].split("::")[-1] if r else
                    "a loop that runs as often as a number says allocates (%s) without reading any input: memory grows with the number, not with the input" % a[0][:80]),
                   fn.where(fn.term(head)["loc"]), key="paid-growth:loop#%d" % sorted(fn.loops()).index(head))
        for _b, t in fn.calls():
            nm = t.get("callee") or ""
            if not _RANGE_ADAPTORS.match(nm):
                continue
            tys = [ta["d"].get("s", "") for ta in t.get("targs", [])]
            if not tys or "core::ops::range::Range" not in tys[0]:
                continue
            spans = [_re.search(r"\{closure@([^:]+:\d+):", s) for s in tys]
            spans = [m.group(1) for m in spans if m]
            for c in cl:
                cf = prog.fn(c)
                if cf is None or not any(cf.where().startswith(sp) or sp in cf.where() for sp in spans):
                    continue
                n += 1
                okk = not allocs.get(c, False) or reads.get(c, False)
                chk.ob("R-ALLOC", c, okk, "closure run once per number of a range: what it allocates is paid for by a stream read" if okk else
                       "a closure run as often as a number says allocates without reading any input: memory grows with the number, not with the input",
                       cf.where(), key="paid-growth:closure")
    chk.notes.setdefault("range_driven", {})[label] = n
    return n
