"""Obligation bookkeeping, known findings, evidence and exit protocol."""
import json, os, sys, time

VERIF = os.path.dirname(os.path.dirname(os.path.abspath(__file__)))


class Check:
    def __init__(self, prop, tier, level="other"):
        self.prop = prop
        self.tier = tier
        self.level = level
        self.t0 = time.time()
        self.obs = []          # dicts: rule, anchor, status, detail, where
        self.assumptions = []
        self.trusted = []
        self.notes = {}
        self.floors = {}
        self.explanation = ""

    # status: HOLDS | VIOLATION | BLIND
    def ob(self, rule, anchor, ok, detail="", where=None, key=None):
        anchor = anchor + getattr(self, "ctx", "")
        self.obs.append({"rule": rule, "anchor": anchor, "status": "HOLDS" if ok else "VIOLATION",
                         "detail": detail, "where": where, "key": key if key is not None else detail})
        return ok

    def blind(self, rule, anchor, why, where=None):
        """the checker cannot see / decide something it decided on the confirmed tree: fail closed"""
        self.obs.append({"rule": rule, "anchor": anchor + getattr(self, "ctx", ""), "status": "BLIND", "detail": why, "where": where, "key": why})

    def floor(self, name, count, minimum):
        """vacuity guard: instance count must not fall below what was counted by hand"""
        self.floors[name] = {"count": count, "floor": minimum}
        if count < minimum:
            self.blind("floor", name, "instance count %d fell below the confirmed floor %d" % (count, minimum))

    def assume(self, text):
        if text not in self.assumptions:
            self.assumptions.append(text)

    def trust(self, text):
        if text not in self.trusted:
            self.trusted.append(text)

    def finish(self, extra_cov=None, cmd=None):
        known = load_known()
        viol = [o for o in self.obs if o["status"] != "HOLDS"]
        unlisted = []
        for o in viol:
            k = finding_key(self.prop, o)
            if o["status"] == "VIOLATION" and k in known.get("known", {}):
                print("KNOWN-FINDING: property=%s %s" % (self.prop, known["known"][k]))
                o["status"] = "KNOWN"
            else:
                unlisted.append(o)
        os.makedirs(os.path.join(VERIF, "out", "replay"), exist_ok=True)
        for n, o in enumerate(unlisted):
            rp = os.path.join("out", "replay", "%s-%d.json" % (self.prop, n))
            with open(os.path.join(VERIF, rp), "w") as fh:
                json.dump({"property": self.prop, "kind": "checker-blind" if o["status"] == "BLIND" else "property-violation",
                           "key": finding_key(self.prop, o), **o}, fh, indent=1)
            print("%s %s [%s] %s: %s (%s)" % ("CHECKER-BLIND" if o["status"] == "BLIND" else "FAIL", self.prop, o["rule"], o["anchor"], o["detail"], o.get("where")))
            print("VIOLATION property=%s replay=%s" % (self.prop, rp))
        n_ob = len(self.obs)
        n_ok = sum(1 for o in self.obs if o["status"] == "HOLDS")
        by_rule = {}
        for o in self.obs:
            r = by_rule.setdefault(o["rule"], {"obligations": 0, "holds": 0})
            r["obligations"] += 1
            r["holds"] += o["status"] == "HOLDS"
        samples = [{"rule": o["rule"], "anchor": o["anchor"], "status": o["status"], "detail": o["detail"][:300], "where": o["where"]}
                   for o in (viol[:10] + [o for o in self.obs if o["status"] == "HOLDS"][:25])]
        cov = {
            "explanation": self.explanation,
            "obligations": n_ob,
            "discharged": n_ok,
            "checker_cmd": cmd or ("./check %s %s" % (self.prop, self.tier)),
            "trusted_base": self.trusted,
            "rule_instances": by_rule,
            "floors": self.floors,
            "samples": samples,
            "known_findings_matched": sum(1 for o in self.obs if o["status"] == "KNOWN"),
        }
        cov.update(self.notes)
        if extra_cov:
            cov.update(extra_cov)
        level = self.level
        if level == "proof" and n_ok != n_ob:
            level = "other"   # never claim proof with an undischarged obligation
        ev = {"property_id": self.prop, "tier": self.tier, "seed": int(os.environ.get("VERIF_SEED", "0") or 0),
              "level": level, "coverage": cov, "assumptions": self.assumptions,
              "wall_s": round(time.time() - self.t0, 3), "violations": len(unlisted)}
        edir = os.path.join(os.environ.get("NX_SCRATCH") or VERIF, "evidence")
        os.makedirs(edir, exist_ok=True)
        with open(os.path.join(edir, self.prop + ".json"), "w") as fh:
            json.dump(ev, fh, indent=1)
        print("%s %s: %d obligations, %d hold, %d known, %d unlisted  (%.1fs)" % (
            self.prop, self.tier, n_ob, n_ok, cov["known_findings_matched"], len(unlisted), ev["wall_s"]))
        return 1 if unlisted else 0


def finding_key(prop, o):
    anchor = o["anchor"].split(" [cfg=")[0]       # a finding is the same construct in every analysed configuration
    return "%s|%s|%s|%s" % (prop, o["rule"], anchor, o["key"])


def load_known():
    p = os.path.join(VERIF, "known_findings.json")
    if not os.path.exists(p):
        return {"known": {}, "fixed": []}
    with open(p) as fh:
        j = json.load(fh)
    return {"known": {e["key"]: e["what"] for e in j.get("known", [])}, "fixed": j.get("fixed", [])}
