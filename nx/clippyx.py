"""Thorough-tier cross-reference: opt-in clippy lints are a *superset oracle* for R-PANIC's candidate enumeration.
Clippy gives no verdict (no reachability, no discharge of guarded sites); but every site it flags inside a function of
an R-PANIC scope must appear among the obligations R-PANIC enumerated there, else the enumeration has a hole."""
import json, os, subprocess
from .extract import REPO, CACHE, Lock

LINTS = ["indexing_slicing", "unwrap_used", "expect_used", "panic", "unreachable", "string_slice"]


def sites():
    env = dict(os.environ, CARGO_NET_OFFLINE="true", CARGO_TARGET_DIR=os.path.join(CACHE, "tgt-clippy"))
    args = ["cargo", "+nightly", "clippy", "--offline", "--workspace", "--lib", "--all-features", "--message-format=json", "--"]
    for l in LINTS:
        args += ["-W", "clippy::" + l]
    with Lock("clippy"):
        # clippy caches per crate: force a re-lint of the members so the run reflects the current tree
        import glob, shutil
        for p in glob.glob(os.path.join(CACHE, "tgt-clippy", "debug", ".fingerprint", "nexrad*")):
            shutil.rmtree(p, ignore_errors=True)
        p = subprocess.run(args, cwd=REPO, env=env, capture_output=True, text=True)
    out = []
    for line in p.stdout.splitlines():
        if not line.startswith("{"):
            continue
        try:
            j = json.loads(line)
        except ValueError:
            continue
        if j.get("reason") != "compiler-message":
            continue
        m = j["message"]
        code = (m.get("code") or {}).get("code") or ""
        if not code.startswith("clippy::") or code[8:] not in LINTS:
            continue
        sp = [s for s in m["spans"] if s.get("is_primary")]
        if sp:
            out.append((code[8:], sp[0]["file_name"], sp[0]["line_start"]))
    return out, p.returncode


def fn_lines(fn):
    lines = set()
    for blk in fn.blocks:
        if blk["cleanup"]:
            continue
        for s in blk["stmts"]:
            if "loc" in s:
                lines.add((s["loc"]["file"], s["loc"]["line"]))
        t = blk["term"]
        if t and "loc" in t:
            lines.add((t["loc"]["file"], t["loc"]["line"]))
    return lines


def cross_check(chk, prog, scope_fns, label):
    ss, rc = sites()
    if rc != 0 and not ss:
        chk.blind("X-CLIPPY", label, "clippy cross-reference could not run")
        return
    inscope = {}
    for p in scope_fns:
        fn = prog.fn(p)
        if fn is None:
            continue
        for fl in fn_lines(fn):
            inscope.setdefault(fl, p)
    enumerated = set()
    for o in chk.obs:
        if o["rule"] in ("R-PANIC", "R-ALLOC") and o.get("where"):
            f, _, l = o["where"].rpartition(":")
            try:
                enumerated.add((f, int(l)))
            except ValueError:
                pass
    n = 0
    for lint, f, l in ss:
        if (f, l) in inscope:
            n += 1
            chk.ob("X-CLIPPY", inscope[(f, l)], (f, l) in enumerated, "clippy::%s site is among R-PANIC's enumerated obligations" % lint if (f, l) in enumerated else
                   "clippy::%s flags %s:%d inside the scope but R-PANIC enumerated no obligation there (coverage hole)" % (lint, f, l), "%s:%d" % (f, l), key="clippy:%s" % lint)
    chk.notes.setdefault("clippy_cross_reference", {})[label] = {"sites_total": len(ss), "sites_in_scope": n}
