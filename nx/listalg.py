"""List algebra over VN terms: containers built by Vec::new / push / extend are sequences of atoms and elements.
Used to state conservation ("none lost, duplicated or reordered") as equalities of sequence expressions."""
from . import sym

NEW = ("alloc::vec::Vec::<T>::new", "alloc::vec::Vec::<T>::with_capacity")


def seq(t):
    """-> list of ('atom', term) | ('elem', term), or None when t is not a push/extend chain"""
    if not isinstance(t, tuple) or not t:
        return None
    if t[0] == "p":
        return [("atom", t)]
    if t[0] in ("fld", "vfld"):
        b = t
        while b[0] in ("fld", "vfld"):
            b = b[1]
        if b[0] == "p":
            return [("atom", t)]     # a container-valued field of an input atom
        if t[0] == "vfld" and t[2] in ("Ok", "Some") and t[1][0] == "seq":
            return [("atom", t)]     # the vector a fallible chain collected: one opaque run of elements
    if t[0] == "call" and t[1] in NEW:
        return []
    if t[0] == "array":
        return [("elem", x) for x in t[1]]      # vec![a, b, ..] / an array literal: exactly those elements
    if t[0] == "mutated" and t[2] == 0:
        name = t[1]
        base = seq(t[3][0])
        if base is None:
            return None
        if name.endswith("::push") or name.endswith("::push_back"):
            return base + [("elem", t[3][1])]
        if name.endswith("::extend>") or "Extend" in name or name.endswith("::extend") or name.endswith("::append"):
            other = seq(t[3][1])
            if other is None:
                return None
            return base + other
        return None
    if t[0] == "call" and (t[1].endswith("::into_iter") or t[1].endswith("IntoIterator>::into_iter") or t[1].endswith("::iter")) and len(t[2]) == 1:
        return seq(t[2][0])
    if t[0] == "iter":
        return seq(t[1])
    if t[0] == "seq" and t[3] == sym.ELEM and all(op[0] == "chain" for op in t[2]):
        # a.into_iter().chain(b).collect(): a's elements then b's
        out = seq(t[1])
        for op in t[2]:
            nxt = seq(op[2])
            if out is None or nxt is None:
                return None
            out = out + nxt
        return out
    if t[0] == "after_loop":
        return [("atom", t)]
    return None


def flatten(items, inner):
    """replace each element by the sequence it contains (inner: elem term -> seq or None); atoms X become ('flat', X)"""
    out = []
    for kind, x in items:
        if kind == "atom":
            out.append(("flat", x))
        else:
            s = inner(x)
            if s is None:
                return None
            out += s
    return out


def show(items):
    from .spec import show as sh
    if items is None:
        return "<not a push/extend chain>"
    return "[" + " ++ ".join(("%s" % sh(x)[:60]) if k == "atom" else ("flat(%s)" % sh(x)[:40] if k == "flat" else "[%s]" % sh(x)[:80]) for k, x in items) + "]"
