"""Helpers to write specification terms in the VN term language and compare them."""
from . import sym
from .sym import C, P, fld, some, NONE, ok, err, ite, mk_in, mk_cases, binop, cast, adt, rs_compl, TRUE, FALSE, mk_not, mk_and, mk_or

SELF = P("self")


def F(name, base=SELF):
    return fld(base, name)


def unit_variant(path, name):
    return adt(path, name, ())


def in_range(t, ty, lo, hi):
    return mk_in(t, ty, ((lo, hi),))


def eq_c(t, ty, k):
    return mk_in(t, ty, ((k, k),))


def table(scrut, ty, rows, default):
    """rows: list of ((lo,hi) or int, term)"""
    arms = []
    used = []
    for k, t in rows:
        r = (k, k) if isinstance(k, int) else k
        arms.append(((r,), t))
        used.append(r)
    arms.append((rs_compl(tuple(used), ty), default))
    return mk_cases(scrut, ty, tuple(arms))


def show(t, depth=0):
    """compact human-readable rendering of a term"""
    if not isinstance(t, tuple) or not t:
        return repr(t)
    k = t[0]
    if k == "c":
        return "%s_%s" % (t[1], t[2]) if t[2] not in ("&str",) else repr(t[1])
    if k == "p":
        return t[1]
    if k == "fld":
        return "%s.%s" % (show(t[1]), t[2])
    if k == "vfld":
        return "(%s as %s).%s" % (show(t[1]), t[2], t[3])
    if k == "bin":
        return "%s(%s, %s)" % (t[1], show(t[2]), show(t[3]))
    if k == "un":
        return "%s(%s)" % (t[1], show(t[2]))
    if k == "cast":
        return "%s as %s" % (show(t[1]), t[3])
    if k == "in":
        return "%s in %s" % (show(t[1]), rs_show(t[3]))
    if k == "not":
        return "!(%s)" % show(t[1])
    if k == "adt":
        name = t[1].split("::")[-1] + "::" + t[2]
        if not t[3]:
            return name
        return "%s(%s)" % (name, ", ".join("%s" % show(v) if n.isdigit() else "%s: %s" % (n, show(v)) for n, v in t[3]))
    if k == "cases":
        return "match %s {%s}" % (show(t[1]), "; ".join("%s => %s" % (rs_show(rs), show(x)) for rs, x in t[3]))
    if k == "ite":
        return "if %s {%s} else {%s}" % (show(t[1]), show(t[2]), show(t[3]))
    if k == "call":
        return "%s(%s)" % (t[1].split("::")[-1] if len(t[1]) > 40 else t[1], ", ".join(show(a) for a in t[2]))
    if k == "tuple":
        return "(%s)" % ", ".join(show(a) for a in t[1])
    if k == "uom":
        return "uom<%s>(%s)" % (t[1][-1].split("::")[-1] if t[1] else "?", show(t[2]))
    if k == "seq":
        return "seq(%s | %s | elem=> %s)" % (show(t[1]), "; ".join("%s %s" % (o[0], show(o[2])) for o in t[2]), show(t[3]))
    return "%s(%s)" % (k, ", ".join(show(a) if isinstance(a, tuple) else repr(a) for a in t[1:]))


def rs_show(rs):
    return "|".join(str(a) if a == b else "%d..=%d" % (a, b) for a, b in rs)


def piecewise_eq(a, b, limit=400):
    """two piecewise-defined terms agree on every cell of the common refinement of their case distinctions (the same
    function written with a different nesting or grouping of tests)"""
    from . import loops
    try:
        cells = loops.split_cases({0: a, 1: b}, limit=limit)
    except sym.Undecided:
        return False
    cells = [(c, v) for c, v in cells if not _exhausted_then_more(c)]
    return bool(cells) and all(sym.sem_eq(v[0], v[1]) for _c, v in cells)


NTH = "core::iter::traits::iterator::Iterator::nth"


def _exhausted_then_more(conds):
    """a cell in which an iterator's i-th element is absent but a later one is present: impossible for the fused iterators
    of core/alloc (once `next` returns None it keeps returning None)"""
    none_at, some_at = {}, {}
    for c in conds:
        if len(c) == 3 and c[0][0] == "discr" and c[0][1][0] == "call" and c[0][1][1].endswith("Iterator::nth") and sym.is_c(c[0][1][2][1]):
            base, i = c[0][1][2][0], c[0][1][2][1][1]
            is_some = c[2] == ((1, 1),)
            is_none = not any(lo <= 1 <= hi for lo, hi in c[2])
            if is_some:
                some_at.setdefault(base, []).append(i)
            elif is_none:
                none_at.setdefault(base, []).append(i)
    return any(i < j for b, ns in none_at.items() for i in ns for j in some_at.get(b, []))


def expect(chk, rule, anchor, got, want, where=None, what="value", key=None):
    okk = sym.sem_eq(got, want)
    if not okk and isinstance(got, tuple) and isinstance(want, tuple) and (loops_first_case(got) is not None or loops_first_case(want) is not None):
        okk = piecewise_eq(got, want)
    chk.ob(rule, anchor, okk, ("%s is as specified: %s" % (what, show(want)[:200])) if okk else
           "%s differs from the specification — found: %s ; specified: %s" % (what, show(got)[:600], show(want)[:600]),
           where, key=key or what)
    return okk


def iter_source(t):
    """the collection an iterator value walks front to back: `x.into_iter()`, `x.iter()`, `(&x).into_iter()`, `x.iter_mut()`"""
    while isinstance(t, tuple) and t:
        if t[0] == "iter":
            t = t[1]
        elif t[0] == "call" and len(t[2]) == 1 and (t[1].endswith("::into_iter") or t[1].endswith("::iter") or t[1].endswith("::iter_mut")):
            t = t[2][0]
        else:
            break
    return t


def loops_first_case(t):
    from . import loops
    return loops.first_case(t)


def eval_or_blind(chk, ev, rule, path, args=None):
    """evaluate a function; UNDECIDED or missing anchor fails closed"""
    fn = ev.prog.fn(path)
    if fn is None:
        chk.blind(rule, path, "function not found (renamed or removed)")
        return None, None
    try:
        if args is None:
            return ev.eval_self_fn(path), fn
        return ev.eval_fn(path, args), fn
    except sym.Undecided as e:
        chk.blind(rule, path, "value numbering could not decide this function: %s" % e, fn.where())
        return None, fn


import re as _re


def canon_call_name(name):
    """declared-method spelling of a resolved callee path: `<X as a::b::Trait<..>>::m` -> `Trait::m`;
    inherent paths keep their last two segments without generic arguments"""
    m = _re.match(r"^<.* as ([^<>]*?)(<.*>)?>::(\w+)$", name)
    if m:
        return m.group(1).split("::")[-1] + "::" + m.group(3)
    n = _re.sub(r"::<[^>]*>", "", name)
    n = _re.sub(r"<impl [^>]*>", "impl", n)
    parts = n.split("::")
    return "::".join(parts[-2:])


def canon_calls(t):
    """rename every call node to its canonical short name (so resolved and declared spellings compare equal)"""
    if not isinstance(t, tuple) or not t:
        return t
    if t[0] == "call":
        return ("call", canon_call_name(t[1]), tuple(canon_calls(x) for x in t[2]))
    if t[0] == "adt" and t[1].endswith("::Utc"):
        return ("Utc",)
    if t[0] == "const" and "Utc" in str(t[1]):
        return ("Utc",)
    return tuple(canon_calls(x) if isinstance(x, tuple) else x for x in t)


def expect_c(chk, rule, anchor, got, want, where=None, what="value", key=None):
    return expect(chk, rule, anchor, canon_calls(got), canon_calls(want), where, what, key)
