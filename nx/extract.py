"""E1 front end: run the nxfacts driver inside /repo's own `cargo +nightly check` and load
the facts. Facts are cached by a content hash of /repo's working tree sources, so every
check re-derives them from the *current* tree (a changed file => new hash => re-extraction)."""
import fcntl, glob, hashlib, json, os, shutil, subprocess, sys, time, uuid

VERIF = os.path.dirname(os.path.dirname(os.path.abspath(__file__)))
REPO = os.environ.get("NX_REPO", "/repo")
# NX_SCRATCH (development only): keep build caches, facts and evidence of a run against a scratch copy of the repository
# (NX_REPO) apart from the registered checks' own
SCRATCH = os.environ.get("NX_SCRATCH")
CACHE = os.path.join(SCRATCH or VERIF, ".cache")
OUT = os.path.join(SCRATCH or VERIF, "out")
DRIVER = os.path.join(VERIF, "driver", "target", "release", "nxfacts")
MEMBERS = ["nexrad", "nexrad_model", "nexrad_decode", "nexrad_data"]

CONFIGS = {
    # the configuration upstream CI lints; includes the uom accessors
    "all": ["--workspace", "--lib", "--all-features"],
    "default": ["--workspace", "--lib"],
}


def _driver_stamp():
    h = hashlib.sha256()
    for p in sorted(glob.glob(os.path.join(VERIF, "driver", "src", "*.rs"))):
        with open(p, "rb") as fh:
            h.update(fh.read())
    return h.hexdigest()[:16]


def tree_hash(root=None):
    root = root or REPO
    h = hashlib.sha256()
    h.update(_driver_stamp().encode())      # facts depend on the extractor too
    files = []
    for d, dirs, fs in os.walk(root):
        dirs[:] = [x for x in dirs if x not in ("target", ".git")]
        for f in fs:
            if f.endswith(".rs") or f in ("Cargo.toml", "Cargo.lock", "rust-toolchain.toml", "build.rs"):
                files.append(os.path.join(d, f))
    for p in sorted(files):
        h.update(os.path.relpath(p, root).encode())
        h.update(b"\0")
        with open(p, "rb") as fh:
            h.update(fh.read())
        h.update(b"\0")
    return h.hexdigest()


def sysroot_lib():
    sr = subprocess.run(["rustc", "+nightly", "--print", "sysroot"], capture_output=True, text=True, check=True).stdout.strip()
    return os.path.join(sr, "lib")


class Lock:
    def __init__(self, name):
        os.makedirs(CACHE, exist_ok=True)
        self.path = os.path.join(CACHE, name + ".lock")

    def __enter__(self):
        self.fh = open(self.path, "w")
        fcntl.flock(self.fh, fcntl.LOCK_EX)
        return self

    def __exit__(self, *a):
        fcntl.flock(self.fh, fcntl.LOCK_UN)
        self.fh.close()


def ensure_driver():
    stamp = DRIVER + ".src"
    cur = _driver_stamp()
    if not os.path.exists(DRIVER) or not os.path.exists(stamp) or open(stamp).read().strip() != cur:
        env = dict(os.environ, CARGO_NET_OFFLINE="true")
        subprocess.run(["cargo", "+nightly", "build", "--release", "--offline"], cwd=os.path.join(VERIF, "driver"), env=env, check=True,
                       stdout=subprocess.DEVNULL, stderr=subprocess.DEVNULL)
        with open(stamp, "w") as fh:
            fh.write(cur)
    return DRIVER


def run_driver(cwd, out_dir, cargo_args, target_dir, crates, fingerprint_globs):
    """Run cargo check with the driver injected; returns (returncode, stderr)."""
    ensure_driver()
    run_id = uuid.uuid4().hex
    if os.path.isdir(out_dir):
        shutil.rmtree(out_dir)
    os.makedirs(out_dir)
    # cargo's freshness cache would skip the wrapper and replay old output: delete the
    # members' fingerprints so they are always re-checked through the driver
    for g in fingerprint_globs:
        for p in glob.glob(os.path.join(target_dir, "debug", ".fingerprint", g)):
            shutil.rmtree(p, ignore_errors=True)
    env = dict(os.environ)
    env.update({
        "CARGO_NET_OFFLINE": "true",
        "LD_LIBRARY_PATH": sysroot_lib() + ":" + env.get("LD_LIBRARY_PATH", ""),
        "RUSTFLAGS": "-Zmir-opt-level=0 -Awarnings",
        "RUSTC_WORKSPACE_WRAPPER": DRIVER,
        "CARGO_TARGET_DIR": target_dir,
        "NXFACTS_OUT": out_dir,
        "NXFACTS_RUN": run_id,
        "NXFACTS_CRATES": ",".join(crates),
        "CARGO_INCREMENTAL": "0",
    })
    locked = ["--locked"] if os.path.exists(os.path.join(cwd, "Cargo.lock")) else []
    p = subprocess.run(["cargo", "+nightly", "check", "--offline"] + locked + cargo_args, cwd=cwd, env=env,
                       capture_output=True, text=True)
    return p.returncode, p.stderr, run_id


class ExtractionError(Exception):
    pass


def extract(cfg="all"):
    """Returns the directory holding one fresh fact file per workspace member for the
    current /repo working tree (fail closed otherwise)."""
    h = tree_hash()
    out_dir = os.path.join(OUT, "facts", cfg)
    stamp = os.path.join(out_dir, "TREEHASH")
    with Lock("extract-" + cfg):
        if os.path.exists(stamp) and open(stamp).read().strip() == h and _complete(out_dir, None):
            return out_dir, {"cached": True, "tree_hash": h}
        t0 = time.time()
        rc, err, run_id = run_driver(REPO, out_dir, CONFIGS[cfg], os.path.join(CACHE, "tgt-nightly"), MEMBERS, ["nexrad*"])
        if rc != 0:
            raise ExtractionError("cargo +nightly check failed for /repo (%s):\n%s" % (cfg, err[-3000:]))
        if not _complete(out_dir, run_id):
            raise ExtractionError("fact files missing or stale after extraction (cfg %s)" % cfg)
        with open(stamp, "w") as fh:
            fh.write(h)
        return out_dir, {"cached": False, "tree_hash": h, "extract_s": round(time.time() - t0, 2)}


def _complete(out_dir, run_id):
    seen = {}
    for p in glob.glob(os.path.join(out_dir, "*.jsonl")):
        with open(p) as fh:
            first = json.loads(fh.readline())
        if first.get("fact") != "crate":
            return False
        if run_id is not None and first.get("run") != run_id:
            return False
        seen[first["name"]] = p
    return all(m in seen for m in MEMBERS)


def extract_witness():
    """Facts for the vacuity-guard witness crate (selftest/witness)."""
    wdir = os.path.join(VERIF, "selftest", "witness")
    h = tree_hash(wdir)
    out_dir = os.path.join(OUT, "facts", "witness")
    stamp = os.path.join(out_dir, "TREEHASH")
    with Lock("extract-witness"):
        if os.path.exists(stamp) and open(stamp).read().strip() == h and glob.glob(os.path.join(out_dir, "*.jsonl")):
            return out_dir
        rc, err, run_id = run_driver(wdir, out_dir, ["--lib"], os.path.join(CACHE, "tgt-witness"), ["nxwitness"], ["nxwitness*"])
        if rc != 0 or not glob.glob(os.path.join(out_dir, "*.jsonl")):
            raise ExtractionError("witness crate extraction failed:\n" + err[-3000:])
        with open(stamp, "w") as fh:
            fh.write(h)
        return out_dir
