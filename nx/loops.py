"""Per-loop summaries built with the VN evaluator: the environment at loop entry and the closed form of one iteration."""
from . import sym
from .sym import P


def find_loops(fn):
    """loops sorted by header block; each: (head, body, depth)"""
    lp = fn.loops()
    out = []
    for h, body in sorted(lp.items()):
        if sym.is_await_loop(fn, body):
            continue
        depth = sum(1 for h2, b2 in lp.items() if h2 != h and h in b2 and not sym.is_await_loop(fn, b2))
        out.append((h, body, depth))
    return out


OPAQUE = ("nexrad_decode::util::deserialize",)


def enclosing(fn, head):
    return {h for h, b in fn.loops().items() if h != head and head in b}


def _real_loops(fn):
    return {h: b for h, b in fn.loops().items() if not sym.is_await_loop(fn, b)}


def entry_env(prog, fn, head, models=None, args=None, opaque=()):
    """symbolic environment on first arrival at the loop head (success path of the code before the loop).
    Returns (env, tree) where tree's leaves are '@join' markers or early-return values."""
    ev = sym.Evaluator(prog, models=models, opaque_local=OPAQUE + tuple(opaque))
    ev.summarize_loops = True
    ev.no_skip = enclosing(fn, head)
    env = {0: ("uninit",)}
    for i in range(fn.arg_count):
        env[i + 1] = (args[i] if args else P(fn.local_name(i + 1) or "arg%d" % (i + 1)))
    ev.cut_revisit = frozenset(ev.no_skip)          # the inner loop is looked for within one pass of its enclosing loops
    tree = ev.run(fn, 0, env, {}, 0, until=frozenset([head]))
    ls = sym._leaves(tree, [])
    joins = [x for x in ls if isinstance(x, tuple) and x and x[0] == "@join"]
    if not joins and ev.no_skip:
        # not reached in the first pass of the enclosing loop (it needs state built by earlier iterations): take a generic
        # iteration of the innermost enclosing loop instead — its loop-carried locals are the atoms L<i>
        lp = fn.loops()
        parent = min(ev.no_skip, key=lambda h: len(lp[h]))
        penvs, _t, _e = entry_env(prog, fn, parent, models, args, opaque)
        if len(penvs) == 1:
            asg = assigned_in(fn, lp[parent])
            env = {i: P("L%d" % i) for i in range(len(fn.locals))}
            env.update({l: v for l, v in penvs[0].items() if l not in asg})
            ev.stop = None
            ev._enter()
            try:
                tree = ev._run_from(fn, parent, env, {}, 0, frozenset([head]))
            finally:
                ev._leave()
            ls = sym._leaves(tree, [])
            joins = [x for x in ls if isinstance(x, tuple) and x and x[0] == "@join"]
    envs = [ev._joins[j[1]][0] for j in joins]
    if len(envs) > 1:
        # several symbolic paths reach the loop: merge them into one environment of case trees; paths that never
        # reach the loop contribute ('noentry',) leaves, which the simplifier drops
        keys = set()
        for e in envs:
            keys |= set(e)
        by_id = {j[1]: ev._joins[j[1]][0] for j in joins}
        merged = {}
        for l in keys:
            vals = {jid: e.get(l, ("uninit",)) for jid, e in by_id.items()}
            first = next(iter(vals.values()))
            if all(v == first for v in vals.values()):
                merged[l] = first
            else:
                merged[l] = drop_noentry(sym.map_leaves(tree, lambda leaf, vals=vals: vals[leaf[1]] if (isinstance(leaf, tuple) and leaf and leaf[0] == "@join") else ("noentry",)))
        envs = [merged]
    return envs, tree, ev


def drop_noentry(t):
    """remove ('noentry',) arms from a case tree (their ranges are given to a neighbouring arm: they are infeasible on
    any path that reaches the loop)"""
    if isinstance(t, tuple) and t and t[0] == "cases":
        arms = [(rs, drop_noentry(x)) for rs, x in t[3]]
        live = [(rs, x) for rs, x in arms if x != ("noentry",)]
        if not live:
            return ("noentry",)
        if len(live) < len(arms):
            dead = tuple(r for rs, x in arms if x == ("noentry",) for r in rs)
            live[-1] = (sym.rs_norm(live[-1][0] + dead), live[-1][1])
        return sym.mk_cases(t[1], t[2], tuple(live))
    if isinstance(t, tuple) and t and t[0] == "ite":
        a, b = drop_noentry(t[2]), drop_noentry(t[3])
        if a == ("noentry",):
            return b
        if b == ("noentry",):
            return a
        return sym.ite(t[1], a, b)
    return t


def iteration(prog, fn, head, body, tracked, env0=None, models=None, opaque=()):
    """closed form of one iteration: leaves ('next', values of tracked locals) / ('exit', block) / returned values"""
    ev = sym.Evaluator(prog, models=models, opaque_local=OPAQUE + tuple(opaque))
    ev.summarize_loops = True
    return ev.eval_loop_body(fn, head, body, tracked, env0), ev


def assigned_in(fn, body):
    out = set()
    for b in body:
        blk = fn.blocks[b]
        for s in blk["stmts"]:
            if s["s"] == "assign":
                out.add(s["dst"]["l"])
            if s["s"] == "assign" and s.get("rv") == "ref" and s.get("bk", "").startswith("Mut") and "*" not in s["pl"]["p"]:
                out.add(s["pl"]["l"])
        t = blk["term"]
        if t["t"] == "call":
            out.add(t["dest"]["l"])
    return out


def reassigned_in(fn, body, l):
    """local l itself is written (not merely reborrowed or written through) inside the loop"""
    for b in body:
        blk = fn.blocks[b]
        for st in blk["stmts"]:
            if st["s"] == "assign" and st["dst"]["l"] == l and not st["dst"]["p"]:
                return True
        tt = blk["term"]
        if tt["t"] == "call" and tt["dest"]["l"] == l and not tt["dest"]["p"]:
            return True
    return False


def carried(fn, body, entry):
    """loop-carried locals: defined before the loop (present in the entry environment) and assigned or mutably
    borrowed inside it"""
    return sorted(l for l in assigned_in(fn, body) if l in entry and l != 0)


def paths(tree, conds=()):
    """[(path conditions, leaf)] of a case tree; a condition is (scrutinee term, type, rangeset) or (cond term, bool)"""
    if isinstance(tree, tuple) and tree and tree[0] == "cases":
        out = []
        for rs, x in tree[3]:
            out += paths(x, conds + ((tree[1], tree[2], rs),))
        return out
    if isinstance(tree, tuple) and tree and tree[0] == "ite":
        return paths(tree[2], conds + ((tree[1], True),)) + paths(tree[3], conds + ((tree[1], False),))
    return [(conds, tree)]


def feasible(conds):
    """no scrutinee is constrained to an empty set and no condition is required both true and false"""
    rng, truth = {}, {}
    for c in conds:
        if len(c) == 3:
            cur = rng.get(c[0])
            rng[c[0]] = c[2] if cur is None else sym.rs_inter(cur, c[2])
            if not rng[c[0]]:
                return False
        elif len(c) == 2:
            if truth.setdefault(c[0], c[1]) != c[1]:
                return False
    return True


def classify_exit(fn, bb, body):
    """'error' | 'other' for an exit target of a loop: 'error' when nothing reachable from it re-enters the loop and the
    only values the return place receives on the way are `Err(..)` aggregates or `?` residual conversions (so the function
    returns an error; formatting the error message on the way is allowed)"""
    from .ir import callee_of
    seen = set()
    st = [bb]
    writes = []
    while st:
        b = st.pop()
        if b in seen:
            continue
        seen.add(b)
        if b in body:
            return "other"
        blk = fn.blocks[b]
        t = blk["term"]
        for s in blk["stmts"]:
            if s["s"] == "assign" and s["dst"]["l"] == 0:
                writes.append("err" if (not s["dst"]["p"] and s.get("rv") == "agg" and s.get("vname") == "Err") else "other")
        if t["t"] == "call":
            n = callee_of(t)
            if t["dest"]["l"] == 0:
                writes.append("err" if ("from_residual" in n or "FromResidual" in (t.get("callee") or "")) else "other")
        elif t["t"] in ("yield",):
            return "other"
        st.extend(fn.succ_map()[b])
    if writes and all(w == "err" for w in writes):
        return "error"
    return "other"


def simplify_under(t, conds):
    """re-normalise t knowing the path conditions hold (only boolean `ite` conditions are substituted)"""
    sub, known = {}, {}
    for c in conds:
        if len(c) == 2:
            sub[c[0]] = sym.TRUE if c[1] else sym.FALSE
        else:
            known[c[0]] = c[2]
    return sym.rebuild(t, sub, known) if (sub or known) else t


def summarize(prog, fn, models=None, opaque=()):
    """summary of every natural loop of fn (see module doc). Raises sym.Undecided when a loop cannot be summarised."""
    with sym.budget():
        return _summarize(prog, fn, models, opaque)


def _summarize(prog, fn, models=None, opaque=()):
    out = []
    for h, body, depth in find_loops(fn):
        envs, tree, ev = entry_env(prog, fn, h, models, opaque=opaque)
        if len(envs) != 1:
            raise sym.Undecided("loop at bb%d of %s is entered on %d symbolic paths (expected 1)" % (h, fn.path, len(envs)))
        e = envs[0]
        tracked = carried(fn, body, e)
        asg = assigned_in(fn, body)
        env0 = {l: v for l, v in e.items() if l not in asg}
        # a `&mut` that stands for a local of this function (the parameter of an inlined helper that holds the loop): the
        # loop state is the local it points to, and the reference itself does not change
        for l in list(tracked):
            v = e[l]
            if isinstance(v, tuple) and len(v) == 3 and v[0] == "mref" and v[2] == () and isinstance(v[1], int) and v[1] in e and v[1] != 0 \
                    and fn.local_ty(l).startswith("&mut ") and not reassigned_in(fn, body, l):
                tracked = sorted(set(x for x in tracked if x != l) | {v[1]})
                env0[l] = v
                env0.pop(v[1], None)
        it_local, I, N, start = None, None, None, None
        for l in tracked:
            v = e[l]
            if v[0] == "adt" and v[1] == "core::ops::range::Range":
                it_local = l
                I = P("I%d" % h)
                N = sym.fld(v, "end")
                start = sym.fld(v, "start")
                env0[l] = sym.adt(v[1], v[2], (("start", I), ("end", N)))
        tree, ev2 = iteration(prog, fn, h, body, tracked, env0=env0, models=models, opaque=opaque)
        ne = sym.normal_exit(fn, h, body)
        ps = []
        for conds, leaf in paths(tree):
            if not feasible(conds):
                continue        # the same scrutinee is constrained to disjoint sets along this path
            if isinstance(leaf, tuple) and leaf and leaf[0] == "exit":
                cls = classify_exit(fn, leaf[1], body)
                if cls != "error" and len(leaf) >= 3 and leaf[2] is not None:
                    # semantic fallback (inlined helpers share their continuation blocks with the success path): the value the
                    # function returns along this way out is an error on every branch
                    lv = [x for x in sym._leaves(simplify_under(leaf[2], conds), []) if x != ("unreachable",)]
                    if lv and all(isinstance(x, tuple) and x[0] == "adt" and x[1] == "core::result::Result" and x[2] == "Err" for x in lv):
                        cls = "error"
                kind = "exit:normal" if leaf[1] == ne and cls != "error" else "exit:" + cls
                ps.append((conds, kind, leaf[1] if len(leaf) < 3 or leaf[2] is None else ("ret", leaf[1], simplify_under(leaf[2], conds))))
            elif isinstance(leaf, tuple) and leaf and leaf[0] == "next":
                vals = {l: simplify_under(v, conds) for l, v in zip(tracked, leaf[1])}
                ps.append((conds, "next", vals))
            elif isinstance(leaf, tuple) and leaf and leaf[0] == "adt" and leaf[1] == "core::result::Result" and leaf[2] == "Err":
                ps.append((conds, "exit:error", ("ret", None, leaf)))      # an inner loop's error arm: the function returns that error
            else:
                ps.append((conds, "return", leaf))
        countdown = None
        if it_local is None:
            # `let mut k = n; while k > 0 { ..; k -= 1 }`: a counted loop without an index
            for l in tracked:
                ty = fn.local_ty(l)
                if ty not in sym.INT_TYS or sym.ty_range(ty)[0] != 0:
                    continue
                L = P("L%d" % l)
                norm = [c for c, k, v in ps if k == "exit:normal"]
                nxt = [v for c, k, v in ps if k == "next"]
                if norm and nxt and all(c == ((L, ty, ((0, 0),)),) for c in norm) and all(v[l] == sym.binop("Sub", L, sym.C(1, ty), ty) for v in nxt):
                    countdown = l
                    N, start = e[l], sym.C(0, ty)
                    break
        countup, exit_val = None, None
        if it_local is None and countdown is None:
            # `let mut i = 0; loop { if i == n { return X } ..; i += 1 }`: a counted loop whose exhaustion test returns
            for l in tracked:
                ty = fn.local_ty(l)
                if ty not in sym.INT_TYS:
                    continue
                L = P("L%d" % l)
                nxt = [v for c, k, v in ps if k == "next"]
                if not nxt or not all(v[l] == sym.binop("Add", L, sym.C(1, ty), ty) for v in nxt):
                    continue
                bound = None
                for c, k, v in ps:
                    if c and len(c[0]) == 2 and c[0][0][0] == "bin" and c[0][0][1] == "Eq" and c[0][1] is True and L in (c[0][0][2], c[0][0][3]):
                        bound = c[0][0][3] if c[0][0][2] == L else c[0][0][2]
                        break
                if bound is None or L in sym.atoms(bound):
                    continue
                countup, I, N, start = l, L, bound, e[l]
                eqs = (sym.binop("Eq", L, bound, ty), sym.binop("Eq", bound, L, ty))
                for ix, (c, k, v) in enumerate(ps):
                    if k == "return" and len(c) == 1 and c[0][0] in eqs and c[0][1] is True:
                        ps[ix] = (c, "exit:normal", ("ret", None, v))
                        exit_val = v
                break
        out.append({"head": h, "body": body, "depth": depth, "entry": e, "tracked": tracked, "iter": it_local, "I": I, "N": N, "start": start,
                    "countdown": countdown, "countup": countup, "exit_value": exit_val, "paths": ps, "where": fn.where(fn.term(h)["loc"])})
    return out


def is_success_cond(c):
    """a path condition selecting the Ok/Some/normal outcome of a fallible step"""
    if len(c) == 3:
        scrut, ty, rs = c
        if scrut[0] == "discr" and scrut[1][0] in ("call", "seq") and rs == ((0, 0),):
            return True                      # Result::Ok (discriminant 0) of a call, or of a chain collected into a Result
        if scrut[0] == "loopexit" and rs == ((0, 0),):
            return True                      # inner loop left through its normal exit
    return False


def cont_cond(c, I, N):
    """the loop's own continuation test `I < N` holding"""
    if len(c) == 2 and c[1] is False and c[0][0] == "bin" and c[0][1] == "Eq":
        return (c[0][2], c[0][3]) in ((I, N), (N, I))          # `if i == n { leave }` not taken
    if len(c) == 2 and c[1] is True:
        return c[0] == sym.binop("Lt", I, N, c[0][4] if c[0][0] == "bin" else "usize")
    if len(c) == 3 and sym.is_c(N):
        return c[0] == I and c[2] == ((0, N[1] - 1),)
    return False


def strip_widen(t):
    """drop value-preserving (widening, same-signedness or unsigned->wider signed) integer casts at the top of a term"""
    while isinstance(t, tuple) and t and t[0] == "cast" and t[2] in sym.INT_TYS and t[3] in sym.INT_TYS:
        (s1, b1), (s2, b2) = sym.INT_TYS[t[2]], sym.INT_TYS[t[3]]
        if (s1 == s2 and b2 >= b1) or (not s1 and s2 and b2 > b1):
            t = t[1]
        else:
            break
    return t


def const_value(t):
    return t[1] if sym.is_c(t) and isinstance(t[1], int) else None


def first_case(t):
    """first cases/ite node found in a term (depth-first), or None"""
    if not isinstance(t, tuple) or not t:
        return None
    if t[0] in ("cases", "ite"):
        return t
    for x in (t if isinstance(t[0], tuple) else t[1:]):
        if isinstance(x, tuple):
            r = first_case(x)
            if r is not None:
                return r
    return None


def split_cases(vals, conds=(), limit=64, _known=None, _sub=None):
    """[(path conditions, {local: case-free value})]: splits jointly on every case distinction occurring anywhere in
    the values, so that each result is a plain (branch-free) term per tracked local; infeasible combinations (a scrutinee
    constrained to an empty set) are dropped"""
    known = dict(_known or {})
    sub = dict(_sub or {})
    node = None
    for v in vals.values():
        node = first_case(v)
        if node is not None:
            break
    if node is None:
        return [(conds, vals)]
    if limit <= 0:
        raise sym.Undecided("too many joint cases")
    out = []
    if node[0] == "ite":
        for truth in (True, False):
            s2 = dict(sub)
            s2[node[1]] = sym.TRUE if truth else sym.FALSE
            v2 = {l: sym.rebuild(v, s2, known) for l, v in vals.items()}
            out += split_cases(v2, conds + ((node[1], truth),), limit - 1, known, s2)
    else:
        for rs, _x in node[3]:
            r2 = sym.rs_inter(rs, known[node[1]]) if node[1] in known else rs
            if not r2:
                continue
            k2 = dict(known)
            k2[node[1]] = r2
            s2 = sub
            if len(r2) == 1 and r2[0][0] == r2[0][1] and node[2] in sym.INT_TYS and node[1][0] != "discr":
                s2 = dict(sub)
                s2[node[1]] = sym.C(r2[0][0], node[2])       # pinned to one value: the scrutinee is that constant
            v2 = {l: sym.rebuild(v, s2, k2) for l, v in vals.items()}
            out += split_cases(v2, conds + ((node[1], node[2], r2),), limit - 1, k2, s2)
    return out


def exit_value(prog, fn, lp, models=None, opaque=()):
    """value returned by the function when the loop is left through its normal exit, as a term over the loop-carried
    atoms L<i> (inner/outer loops summarised)"""
    if lp.get("exit_value") is not None:
        return lp["exit_value"]            # the exhaustion test itself returns (counted `loop`)
    ev = sym.Evaluator(prog, models=models, opaque_local=OPAQUE + tuple(opaque))
    ev.summarize_loops = True
    asg = assigned_in(fn, lp["body"])
    env = {l: v for l, v in lp["entry"].items() if l not in asg}
    for l in range(len(fn.locals)):
        if l in asg:
            env[l] = P("L%d" % l)
    for l in lp["tracked"]:
        if l not in asg:
            # the pointee of a `&mut` helper parameter (see summarize): loop state, while the reference keeps its value
            env[l] = P("L%d" % l)
            for r_, v_ in lp["entry"].items():
                if v_ == ("mref", l, ()):
                    env[r_] = v_
    ne = sym.normal_exit(fn, lp["head"], lp["body"])
    if ne is None:
        raise sym.Undecided("loop has no recognisable normal exit")
    r = ev.run(fn, ne, env, {lp["head"]: 1}, 0)
    lp["exit_effects"] = list(ev.effects)       # opaque calls made between the loop's normal exit and the return
    return r
