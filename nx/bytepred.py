"""Decision terms over a byte slice, compared as functions.

A predicate such as `data.len() >= 6 && data[4..6] == *b"BZ"` can be written in many equivalent ways (indexing, `get`,
slice patterns, `starts_with`, `matches!`). All of them are piecewise constant over a small partition of the inputs: the
slice's length relative to a few thresholds and the values of a few fixed byte positions relative to a few constants.
`evalw` interprets a VN term on one representative input ("world": a concrete length and concrete bytes at the
tested positions, a filler elsewhere); two terms whose case distinctions only involve those lengths and positions are
equal as functions iff they agree on every world of the product partition. Nothing of nexrad is executed: the
interpreter folds the checker's own terms."""
from . import sym
from .sym import is_c, C

FILL = 0x3F


class Unknown(Exception):
    pass


class Undefined(Exception):
    """the term indexes past the end on this world (the compiled code would have tested the length first)"""


class World:
    def __init__(self, length, fixed):
        self.len = length
        self.bytes = bytes(fixed.get(i, FILL) for i in range(length))

    def __repr__(self):
        return "len=%d %r" % (self.len, self.bytes)


def byte_constants(term):
    """byte values a term could compare input bytes with: its small integer constants (and their neighbours), the bytes of its
    wider integer constants and of its string/byte literals"""
    out = set()

    def walk(t):
        if isinstance(t, tuple) and t:
            if t[0] == "c" and len(t) >= 2:
                v = t[1]
                if isinstance(v, bool):
                    return
                if isinstance(v, int):
                    if 0 <= v <= 255:
                        out.update({v, (v - 1) & 0xFF, (v + 1) & 0xFF})
                    elif -2 ** 63 <= v < 2 ** 64:
                        out.update((v & (2 ** 64 - 1)).to_bytes(8, "big"))
                elif isinstance(v, str):
                    out.update(v.encode("utf-8", "replace"))
                elif isinstance(v, bytes):
                    out.update(v)
                return
            if t[0] in ("lit", "bytes") and len(t) > 1 and isinstance(t[1], (str, bytes)):
                out.update(t[1].encode() if isinstance(t[1], str) else t[1])
            for x in t:
                if isinstance(x, tuple):
                    walk(x)
    walk(term)
    return out


def worlds(max_len, positions, term=None):
    """every combination of a length 0..max_len and, for each tested position, one of its representative values. With `term`
    (the code's value under analysis), every position additionally takes, one at a time, the boundary bytes 00/7F/80/FF and
    every byte constant occurring in the term: a dependence of the code on a byte, or on a property of a byte, that the
    specification ignores then shows as a disagreement on some world."""
    import itertools
    idx = sorted(positions)
    out = []
    alts = None
    if term is not None:
        alts = sorted(({0x00, 0x7F, 0x80, 0xFF} | byte_constants(term)) - {FILL})
    for n in range(max_len + 1):
        live = [i for i in idx if i < n]
        for combo in itertools.product(*[positions[i] for i in live]):
            fixed = dict(zip(live, combo))
            out.append(World(n, fixed))
            if alts:
                for p in range(n):
                    for a in alts:
                        if a in positions.get(p, ()):
                            continue
                        f2 = dict(fixed)
                        f2[p] = a
                        out.append(World(n, f2))
    return out


def _range_bounds(r, length, iv=None):
    if r[0] != "adt":
        raise Unknown("range %r" % (r[:2],))
    f = dict(r[3])
    name = r[1].rsplit("::", 1)[-1]
    def cv(x):
        if is_c(x) and isinstance(x[1], int):
            return x[1]
        if iv is not None:
            return iv(x)
        raise Unknown("non-constant range bound")
    if name == "Range":
        return cv(f["start"]), cv(f["end"])
    if name == "RangeFrom":
        return cv(f["start"]), length
    if name == "RangeTo":
        return 0, cv(f["end"])
    if name == "RangeInclusive":
        return cv(f["start"]), cv(f["end"]) + 1
    if name == "RangeFull":
        return 0, length
    raise Unknown("range kind " + name)


def _lit(x):
    if x[0] == "const" and isinstance(x[1], str) and x[1].startswith('b"'):
        return sym.parse_byte_literal(x[1])
    if x[0] == "array" and all(is_c(y) and isinstance(y[1], int) for y in x[1]):
        return bytes(y[1] for y in x[1])
    return None


class Interp:
    def __init__(self, d, world, opaque=None, ints=None):
        self.d = d
        self.w = world
        self.opaque = opaque or {}          # callee suffix -> python function(world) for calls kept opaque in the term
        self.ints = ints or {}              # atoms with a concrete integer value on this world (e.g. a loop's offset)
        self.chunk_n = None                 # N of first_chunk::<N> (the call's generic argument is not in the term)

    # ---- slices as python bytes
    def sv(self, s):
        if s == self.d:
            return self.w.bytes
        lit = _lit(s)
        if lit is not None:
            return lit
        k = s[0]
        if k == "call" and (s[1].endswith("::index") or s[1].endswith("::index_mut")) and len(s[2]) == 2:
            b = self.sv(s[2][0])
            lo, hi = _range_bounds(s[2][1], len(b), self.iv)
            if not (lo <= hi <= len(b)):
                raise Undefined()
            return b[lo:hi]
        if k == "vfld" and s[2] == "Some":
            o = self.ov(s[1])
            if o is None:
                raise Undefined()
            return o
        if k == "proj" and "'sub'" in s[2]:
            import ast
            e = ast.literal_eval(s[2])
            b = self.sv(s[1])
            lo = e["sub"]
            hi = len(b) - e["to"] if e["from_end"] else e["to"]
            if not (lo <= hi <= len(b)):
                raise Undefined()
            return b[lo:hi]
        if k == "fld" and s[2] in ("0", "1") and s[1][0] == "call" and s[1][1].endswith("::split_at") and len(s[1][2]) == 2:
            b = self.sv(s[1][2][0])
            n = self.iv(s[1][2][1])
            if n > len(b):
                raise Undefined()
            return b[:n] if s[2] == "0" else b[n:]
        if k == "call" and s[1].endswith("::as_slice") or k == "call" and s[1].endswith("::as_ref"):
            return self.sv(s[2][0])
        if k == "call" and s[1].endswith("::unwrap_or_default") and len(s[2]) == 1:
            o = self.ov(s[2][0])
            return b"" if o is None else o          # Default of a byte slice is the empty slice
        if k == "array" and not s[1]:
            return b""
        if k == "array":
            return bytes(self.iv(x) & 0xFF for x in s[1])
        if k == "repeat" and s[2] == 0:
            return b""
        if k == "fld" and s[2] in ("0", "1"):
            t = self.tv(s[1])
            return t[int(s[2])]
        if k == "vfld" and s[2] == "Some":
            o = self.ov(s[1])
            if o is None:
                raise Undefined()
            return o
        if k in ("cases", "ite"):
            r = self.ev(s)
            if isinstance(r, tuple) and r and r[0] == "bytes":
                return r[1]
            return self.sv(r)
        if k == "bytes":
            return s[1]
        raise Unknown("slice term %r" % (s[:2],))

    # ---- tuples (pairs of slices from split_at / split_at_checked)
    def tv(self, t):
        if t[0] == "tuple":
            return tuple(self.anyv(x) for x in t[1])
        if t[0] == "call" and t[1].endswith("::split_at") and len(t[2]) == 2:
            b = self.sv(t[2][0])
            n = self.iv(t[2][1])
            if n > len(b):
                raise Undefined()
            return (b[:n], b[n:])
        if t[0] == "vfld" and t[2] == "Some":
            o = self.ov(t[1])
            if o is None:
                raise Undefined()
            return o
        if t[0] in ("cases", "ite"):
            return self.tv(self.ev(t))
        raise Unknown("tuple term %r" % (t[:2],))

    # ---- options of slices
    def ov(self, o):
        if o[0] == "adt" and o[1] == "core::option::Option":
            return None if o[2] == "None" else self.anyv(o[3][0][1])
        if o[0] == "call" and o[1].endswith("<impl [T]>::get") and len(o[2]) == 2:
            b = self.sv(o[2][0])
            if o[2][1][0] == "adt":
                lo, hi = _range_bounds(o[2][1], len(b), self.iv)
                return b[lo:hi] if lo <= hi <= len(b) else None
            i = self.iv(o[2][1])
            return b[i] if i < len(b) else None
        if o[0] == "call" and o[1].endswith("::first_chunk") and len(o[2]) == 1:
            b = self.sv(o[2][0])
            n = self.chunk_n or 4
            return b[:n] if len(b) >= n else None
        if o[0] == "call" and o[1].endswith("::split_at_checked") and len(o[2]) == 2:
            b = self.sv(o[2][0])
            n = self.iv(o[2][1])
            return (b[:n], b[n:]) if n <= len(b) else None
        if o[0] in ("cases", "ite"):
            return self.ov(self.ev(o))
        raise Unknown("option term %r" % (o[:2],))

    def anyv(self, x):
        try:
            return self.sv(x)
        except Unknown:
            return self.iv(x)

    # ---- integers
    def iv(self, x):
        if is_c(x) and isinstance(x[1], (int, bool)):
            return int(x[1])
        k = x[0]
        if k == "len":
            return len(self.sv(x[1]))
        if k == "call" and x[1].endswith("::len") and len(x[2]) == 1:
            return len(self.sv(x[2][0]))
        if k == "idx":
            b = self.sv(x[1])
            i = self.iv(x[2])
            if i >= len(b):
                raise Undefined()
            return b[i]
        if k == "call" and (x[1].endswith("::index") or x[1].endswith("::index_mut")) and len(x[2]) == 2:
            base, i = x[2]
            if not (i[0] == "adt" and "ops::range" in i[1]):
                b = self.sv(base)              # data[i] on a byte container
                n = self.iv(i)
                if not (0 <= n < len(b)):
                    raise Undefined()
                return b[n]
        if k == "discr":
            return 0 if self.ov(x[1]) is None else 1
        if self.ints and x[0] == "p" and x in self.ints:
            return self.ints[x]
        if k == "cast":
            v = self.iv(x[1])
            if len(x) == 4 and x[3] in sym.INT_TYS:
                return sym.wrap(v, x[3])
            return v
        if k == "vfld" and x[2] == "Some":
            o = self.ov(x[1])
            if o is None:
                raise Undefined()
            if isinstance(o, int):
                return o
        if k == "be" and x[2] in sym.INT_TYS:
            b = self.sv(x[1])
            signed, bits = sym.INT_TYS[x[2]]
            if len(b) * 8 != bits:
                raise Undefined()
            return int.from_bytes(b, "big", signed=bool(signed))
        if k == "un" and x[1] == "unsigned_abs":
            return abs(self.iv(x[2]))
        if k == "un" and x[1] == "abs":
            return abs(self.iv(x[2]))
        if k == "call" and (x[1].endswith("::abs") or x[1].endswith("::unsigned_abs")) and len(x[2]) == 1 and "<impl i" in x[1]:
            v = self.iv(x[2][0])
            ty = x[1].split("<impl ")[1].split(">")[0]
            if x[1].endswith("::abs") and v == sym.ty_range(ty)[0]:
                raise Undefined()           # abs(MIN) overflows
            return abs(v)
        if k == "call" and x[1].endswith("::saturating_add") and len(x[2]) == 2 and "<impl " in x[1]:
            ty = x[1].split("<impl ")[1].split(">")[0]
            return min(self.iv(x[2][0]) + self.iv(x[2][1]), sym.ty_range(ty)[1])
        if k == "call" and x[1].endswith("::saturating_sub") and len(x[2]) == 2:
            return max(self.iv(x[2][0]) - self.iv(x[2][1]), 0)
        if k == "call" and (x[1].endswith("::min") or x[1] == "core::cmp::min") and len(x[2]) == 2:
            return min(self.iv(x[2][0]), self.iv(x[2][1]))
        if k == "call" and (x[1].endswith("::max") or x[1] == "core::cmp::max") and len(x[2]) == 2:
            return max(self.iv(x[2][0]), self.iv(x[2][1]))
        if k == "bin" and len(x) == 5 and x[1] in ("Add", "Sub", "Mul", "Div", "Rem", "Shl", "Shr", "BitAnd", "BitOr"):
            a, b = self.iv(x[2]), self.iv(x[3])
            if x[1] in ("Div", "Rem") and b == 0:
                raise Undefined()
            if x[1] in ("Shl", "Shr") and not (0 <= b < 128):
                raise Undefined()           # shift amounts beyond the width overflow (a panic in checked builds)
            op = x[1]
            r = (a + b if op == "Add" else a - b if op == "Sub" else a * b if op == "Mul" else a // b if op == "Div" else a % b if op == "Rem" else
                 a << b if op == "Shl" else a >> b if op == "Shr" else a & b if op == "BitAnd" else a | b)
            if x[4] in sym.INT_TYS:
                lo, hi = sym.ty_range(x[4])
                if not (lo <= r <= hi):
                    raise Undefined()           # the checked operation would have panicked: not a value
            return r
        if k in ("cases", "ite"):
            r = self.ev(x)
            if isinstance(r, bool):
                return int(r)
            return self.iv(r)
        raise Unknown("integer term %r" % (x[:2],))

    # ---- decisions: returns True/False for boolean terms, else a term with the decidable tests folded away
    def ev(self, t):
        if not isinstance(t, tuple) or not t:
            return t
        k = t[0]
        if k == "c":
            return bool(t[1]) if t[2] == "bool" else t
        if k == "in":
            v = self.iv(t[1])
            return any(lo <= v <= hi for lo, hi in t[3])
        if k == "not":
            r = self.ev(t[1])
            if isinstance(r, bool):
                return not r
            return ("not", r)
        if k == "cases":
            try:
                v = self.iv(t[1])
            except Unknown:
                return ("cases", self.leaf(t[1]), t[2], tuple((rs, self._term(self.ev(x))) for rs, x in t[3]))
            for rs, x in t[3]:
                if any(lo <= v <= hi for lo, hi in rs):
                    return self.ev(x)
            raise Unknown("no arm")
        if k == "ite":
            c = self.ev(t[1])
            if isinstance(c, bool):
                return self.ev(t[2] if c else t[3])
            return ("ite", c, self._term(self.ev(t[2])), self._term(self.ev(t[3])))
        if k == "bin" and t[1] in ("Eq", "Ne") and len(t) == 5:
            try:
                a, b = self.cmpv(t[2]), self.cmpv(t[3])
            except Unknown:
                return t
            r = a == b
            return r if t[1] == "Eq" else not r
        if k == "bin" and t[1] in ("Lt", "Le", "Gt", "Ge") and len(t) == 5:
            try:
                a, b = self.iv(t[2]), self.iv(t[3])
            except Unknown:
                return t
            return {"Lt": a < b, "Le": a <= b, "Gt": a > b, "Ge": a >= b}[t[1]]
        if k == "bin" and t[1] in ("BitAnd", "BitOr") and t[4] == "bool":
            a, b = self.ev(t[2]), self.ev(t[3])
            if isinstance(a, bool) and isinstance(b, bool):
                return (a and b) if t[1] == "BitAnd" else (a or b)
            return t
        if k == "call":
            for suffix, f in self.opaque.items():
                if t[1].endswith(suffix):
                    return f(self.w)
            if t[1].endswith("::starts_with") and len(t[2]) == 2:
                try:
                    return self.sv(t[2][0]).startswith(self.sv(t[2][1]))
                except Unknown:
                    pass
            if t[1].endswith("::is_empty") and len(t[2]) == 1:
                try:
                    return len(self.sv(t[2][0])) == 0
                except Unknown:
                    pass
            if t[1].endswith("::is_some") or t[1].endswith("::is_none"):
                try:
                    r = self.ov(t[2][0]) is not None
                    return r if t[1].endswith("::is_some") else not r
                except Unknown:
                    pass
        # a leaf (or an opaque construction): fold inside it and name slices of d canonically
        return self.leaf(t)

    @staticmethod
    def _term(r):
        return C(int(r), "bool") if isinstance(r, bool) else r

    def cmpv(self, x):
        if x[0] == "adt" and x[1] == "core::option::Option":
            return ("some", self.cmpv(x[3][0][1])) if x[2] == "Some" else None
        try:
            o = self.ov(x)
            return None if o is None else ("some", o)
        except Unknown:
            pass
        try:
            return self.sv(x)
        except Unknown:
            return self.iv(x)

    def leaf(self, t):
        if not isinstance(t, tuple) or not t:
            return t
        try:
            b = self.sv(t)
            if t != self.d and _lit(t) is None:
                # a sub-slice of d: named by its offsets on this world
                return ("bytes", b)
        except (Unknown, Undefined):
            pass
        if t[0] in ("cases", "ite", "in", "not") or (t[0] == "c"):
            r = self.ev(t)
            return C(int(r), "bool") if isinstance(r, bool) else r
        return tuple(self.leaf(x) if isinstance(x, tuple) else x for x in t)


def evalw(t, d, world, opaque=None):
    try:
        r = Interp(d, world, opaque).ev(t)
    except RecursionError:
        # a term the interpreter cannot reduce, nested deeper than the interpreter's own stack: undecided, reported by the caller
        raise Unknown("term nests unknown operations too deeply to evaluate")
    return r


def same_function(a, b, d, ws, opaque=None):
    """(True, None) when the two terms agree on every world; else (False, (world, value of a, value of b))"""
    for w in ws:
        try:
            va = evalw(a, d, w, opaque)
        except Undefined:
            va = ("undefined",)
        try:
            vb = evalw(b, d, w, opaque)
        except Undefined:
            vb = ("undefined",)
        if va != vb and not (isinstance(va, tuple) and isinstance(vb, tuple) and sym.sem_eq(va, vb)):
            return False, (w, va, vb)
    return True, None
