"""VN — symbolic value numbering of (mostly) loop-free MIR into canonical terms.

Terms are nested tuples (structurally hashed). The evaluator walks the CFG from bb0,
binding locals to terms, folding constants, inlining local callees and a table of pure
library models; a branch on a non-constant value produces a `cases` node whose arms are the
continuations. Loops whose exit tests fold to constants unroll naturally (constant-trip
ranges); any other loop makes the function UNDECIDED. Equality of normalised terms is the
decision — no solver, and nothing is executed."""
import math

MAXSTEPS = 400000


import os as _os, time as _time
EVAL_BUDGET_S = int(_os.environ.get("NX_EVAL_BUDGET", "60"))
_ACTIVE = [0, 0.0]          # evaluations in progress, their common deadline
FROM_VARIANTS = set()       # (enum path, variant) pairs that are the enum's own From<payload> conversion


DISCR_DOM = {}      # ('discr', value term) -> rangeset of the discriminant values of the value's enum type


class Undecided(Exception):
    pass


class OutOfTime(Undecided):
    """the wall-clock budget ran out: never caught to try another strategy"""


# ---------------------------------------------------------------- integer types
INT_TYS = {"u8": (0, 8), "u16": (0, 16), "u32": (0, 32), "u64": (0, 64), "u128": (0, 128), "usize": (0, 64),
           "i8": (1, 8), "i16": (1, 16), "i32": (1, 32), "i64": (1, 64), "i128": (1, 128), "isize": (1, 64),
           "bool": (0, 1), "char": (0, 32)}


def ty_range(ty):
    s, b = INT_TYS[ty]
    return (-(1 << (b - 1)), (1 << (b - 1)) - 1) if s else (0, (1 << b) - 1)


def wrap(v, ty):
    s, b = INT_TYS[ty]
    v &= (1 << b) - 1
    if s and v >= 1 << (b - 1):
        v -= 1 << b
    return v


# ---------------------------------------------------------------- term constructors
def C(v, ty):
    return ("c", v, ty)


def is_c(t):
    return isinstance(t, tuple) and t and t[0] == "c"


TRUE = C(1, "bool")
FALSE = C(0, "bool")
UNIT = ("c", "()", "()")


def P(name):
    return ("p", name)


def fld(base, name):
    if base[0] == "tuple" and name.isdigit() and int(name) < len(base[1]):
        return base[1][int(name)]
    if base[0] == "closure" and name.isdigit() and int(name) < len(base[2]):
        return base[2][int(name)]          # a closure value is the tuple of its captures
    if base[0] == "ite":
        return ite(base[1], fld(base[2], name), fld(base[3], name))
    if base[0] == "adt":
        for n, v in base[3]:
            if n == name:
                return v
    if base[0] == "cases":
        return mk_cases(base[1], base[2], tuple((r, fld(v, name)) for r, v in base[3]))
    if base[0] == "upd" and base[2] == name:
        return base[3]
    if base[0] == "upd":
        return fld(base[1], name)
    return ("fld", base, name)


def adt(path, variant, fields):
    return ("adt", path, variant, tuple(fields))


def some(x):
    return adt("core::option::Option", "Some", (("0", x),))


NONE = adt("core::option::Option", "None", ())


def ok(x):
    return adt("core::result::Result", "Ok", (("0", x),))


def err(x):
    return adt("core::result::Result", "Err", (("0", x),))


# ---------------------------------------------------------------- range sets over an integer type
def rs_norm(rs):
    rs = sorted(r for r in rs if r[0] <= r[1])
    out = []
    for lo, hi in rs:
        if out and lo <= out[-1][1] + 1:
            out[-1] = (out[-1][0], max(out[-1][1], hi))
        else:
            out.append((lo, hi))
    return tuple(out)


def rs_compl(rs, ty):
    lo, hi = ty_range(ty)
    out = []
    cur = lo
    for a, b in rs_norm(rs):
        if a > cur:
            out.append((cur, a - 1))
        cur = b + 1
    if cur <= hi:
        out.append((cur, hi))
    return tuple(out)


def rs_inter(a, b):
    out = []
    for x in a:
        for y in b:
            lo, hi = max(x[0], y[0]), min(x[1], y[1])
            if lo <= hi:
                out.append((lo, hi))
    return rs_norm(out)


def rs_minus(a, b, ty):
    return rs_inter(a, rs_compl(b, ty))


# ---------------------------------------------------------------- cases: canonical piecewise terms
# ("cases", scrutinee, ty, ((rangeset, term), ...)) — rangesets partition the scrutinee type's domain,
# arms sorted by first range, adjacent arms with equal terms merged.
def _unwiden(scrut, ty):
    """a case split on a value-preserving widening cast of x is a case split on x itself (ranges cut to x's type)"""
    while isinstance(scrut, tuple) and scrut and scrut[0] == "cast" and len(scrut) == 4 and scrut[3] == ty and scrut[2] in INT_TYS and ty in INT_TYS:
        flo, fhi = ty_range(scrut[2])
        tlo, thi = ty_range(ty)
        if not (tlo <= flo and fhi <= thi):
            break
        scrut, ty = scrut[1], scrut[2]
    return scrut, ty


def _unshift(scrut, ty, arms):
    """a case split on `x + k` (unsigned, k constant; the checked addition has already succeeded) is the split on x with
    every range moved down by k; the values of x whose sum would not fit go to the last arm (they never reach the split)"""
    while (isinstance(scrut, tuple) and scrut and scrut[0] == "bin" and len(scrut) == 5 and scrut[1] == "Add" and scrut[4] == ty
           and ty in INT_TYS and ty_range(ty)[0] == 0):
        if is_c(scrut[2]) and isinstance(scrut[2][1], int) and scrut[2][1] >= 0:
            k, x = scrut[2][1], scrut[3]
        elif is_c(scrut[3]) and isinstance(scrut[3][1], int) and scrut[3][1] >= 0:
            k, x = scrut[3][1], scrut[2]
        else:
            break
        hi = ty_range(ty)[1]
        if k == 0 or k > hi:
            break
        dom = ((0, hi - k),)
        arms = [(rs_inter(tuple((lo - k, h - k) for lo, h in rs_norm(rs)), dom), t) for rs, t in arms]
        arms = [(rs, t) for rs, t in arms if rs]
        if not arms:
            break
        arms[-1] = (rs_norm(arms[-1][0] + ((hi - k + 1, hi),)), arms[-1][1])
        arms = tuple(arms)
        scrut = x
    return scrut, arms


def mk_cases(scrut, ty, arms):
    _tick()
    s2, t2 = _unwiden(scrut, ty)
    if t2 != ty:
        dom = (ty_range(t2),)
        arms = tuple((rs_inter(rs_norm(rs), dom), t) for rs, t in arms)
        scrut, ty = s2, t2
    scrut, arms = _unshift(scrut, ty, arms)
    if isinstance(scrut, tuple) and scrut and scrut[0] == "discr" and scrut in DISCR_DOM:
        dom = DISCR_DOM[scrut]          # an enum's discriminant only takes its variants' values
        arms = tuple((rs_inter(rs_norm(rs), dom), t) for rs, t in arms)
    # flatten nested cases on the same scrutinee
    flat = []
    for rs, t in arms:
        if not rs:
            continue
        if isinstance(t, tuple) and t[0] == "cases" and t[1] == scrut:
            for rs2, t2 in t[3]:
                r = rs_inter(rs, rs2)
                if r:
                    flat.append((r, t2))
        else:
            flat.append((rs_norm(rs), t))
    merged = {}
    order = []
    for rs, t in flat:
        if t in merged:
            merged[t] = rs_norm(merged[t] + rs)
        else:
            merged[t] = rs
            order.append(t)
    if len(order) == 1:
        return order[0]
    if is_c(scrut):
        v = scrut[1]
        for t in order:
            if any(lo <= v <= hi for lo, hi in merged[t]):
                return t
        return ("unreachable",)
    arms2 = sorted(((merged[t], t) for t in order), key=lambda x: x[0])
    # boolean-valued cases collapse to a membership test
    if len(arms2) == 2 and {arms2[0][1], arms2[1][1]} == {TRUE, FALSE}:
        rs = arms2[0][0] if arms2[0][1] == TRUE else arms2[1][0]
        return mk_in(scrut, ty, rs)
    return ("cases", scrut, ty, tuple(arms2))


def mk_in(scrut, ty, rs):
    rs = rs_norm(rs)
    s2, t2 = _unwiden(scrut, ty)
    if t2 != ty:
        rs = rs_inter(rs, (ty_range(t2),))
        scrut, ty = s2, t2
    if (isinstance(scrut, tuple) and scrut and scrut[0] == "bin" and len(scrut) == 5 and scrut[1] == "Add" and scrut[4] == ty and ty in INT_TYS
            and ty_range(ty)[0] == 0 and _unshift(scrut, ty, ((rs, TRUE),))[0] != scrut):
        c = mk_cases(scrut, ty, ((rs, TRUE), (rs_compl(rs, ty), FALSE)))
        if not (c[0] == "in" and c[1] == scrut):
            return c
    lo, hi = ty_range(ty)
    if not rs:
        return FALSE
    if rs == ((lo, hi),):
        return TRUE
    if is_c(scrut):
        return TRUE if any(a <= scrut[1] <= b for a, b in rs) else FALSE
    if ty == "bool":
        return scrut if rs == ((1, 1),) else mk_not(scrut)
    return ("in", scrut, ty, rs)


def mk_not(c):
    if c == TRUE:
        return FALSE
    if c == FALSE:
        return TRUE
    if c[0] == "in":
        return mk_in(c[1], c[2], rs_compl(c[3], c[2]))
    if c[0] == "not":
        return c[1]
    if c[0] == "cases":
        return mk_cases(c[1], c[2], tuple((rs, mk_not(t)) for rs, t in c[3]))
    return ("not", c)


def ite(c, a, b):
    """if c then a else b, canonicalised through `cases` when c is a membership test"""
    if c == TRUE:
        return a
    if c == FALSE:
        return b
    if a == b:
        return a
    if c[0] == "in":
        return mk_cases(c[1], c[2], ((c[3], a), (rs_compl(c[3], c[2]), b)))
    if c[0] == "not":
        return ite(c[1], b, a)
    if c[0] == "bin" and len(c) == 5 and c[1] == "Ne":
        return ite(("bin", "Eq", c[2], c[3], c[4]), b, a)      # x != y is !(x == y), also for NaN
    if c[0] == "cases":
        return mk_cases(c[1], c[2], tuple((rs, ite(t, a, b)) for rs, t in c[3]))
    if a == TRUE and b == FALSE:
        return c
    if a == FALSE and b == TRUE:
        return mk_not(c)
    return ("ite", c, a, b)


def mk_and(a, b):
    return ite(a, b, FALSE)


def mk_or(a, b):
    return ite(a, TRUE, b)


_TICK = [0]


class budget:
    """`with sym.budget():` — work on terms outside an evaluator (merging entry environments, splitting cases) counts
    against the same wall-clock budget"""
    def __enter__(self):
        if _ACTIVE[0] == 0:
            _ACTIVE[1] = _time.time() + EVAL_BUDGET_S
        _ACTIVE[0] += 1

    def __exit__(self, *a):
        _ACTIVE[0] -= 1
        return False


def _tick():
    """the wall-clock budget also covers work on case trees between evaluation steps"""
    _TICK[0] += 1
    if (_TICK[0] & 255) == 0 and _ACTIVE[0] > 0 and _time.time() > _ACTIVE[1]:
        raise OutOfTime("time budget (%ds) exceeded: the value grows too large to enumerate" % EVAL_BUDGET_S)


def map_leaves(t, f):
    """apply f to the leaves of a cases/ite tree"""
    _tick()
    if isinstance(t, tuple) and t and t[0] == "cases":
        return mk_cases(t[1], t[2], tuple((rs, map_leaves(x, f)) for rs, x in t[3]))
    if isinstance(t, tuple) and t and t[0] == "ite":
        return ite(t[1], map_leaves(t[2], f), map_leaves(t[3], f))
    return f(t)


# ---------------------------------------------------------------- arithmetic
COMM = {"Add", "Mul", "BitAnd", "BitOr", "BitXor", "Eq", "Ne", "AddWithOverflow", "MulWithOverflow", "AddUnchecked", "MulUnchecked"}
CMP = {"Lt", "Le", "Gt", "Ge", "Eq", "Ne"}


def _cmp_rs(op, k, ty):
    lo, hi = ty_range(ty)
    return {"Lt": ((lo, k - 1),), "Le": ((lo, k),), "Gt": ((k + 1, hi),), "Ge": ((k, hi),), "Eq": ((k, k),),
            "Ne": ((lo, k - 1), (k + 1, hi))}[op]


FLIP = {"Lt": "Gt", "Le": "Ge", "Gt": "Lt", "Ge": "Le", "Eq": "Eq", "Ne": "Ne"}


def binop(op, a, b, ty):
    _tick()
    base = op.replace("WithOverflow", "").replace("Unchecked", "")
    if a[0] in ("cases", "ite") and is_c(b) and ty in INT_TYS and base in CMP | {"BitAnd", "Shr", "Shl", "Add", "Sub", "Mul", "Div", "Rem", "BitOr"}:
        return map_leaves(a, lambda x: binop(op, x, b, ty))
    if ty in INT_TYS:
        if is_c(a) and is_c(b):
            x, y = a[1], b[1]
            if base in CMP:
                return TRUE if {"Lt": x < y, "Le": x <= y, "Gt": x > y, "Ge": x >= y, "Eq": x == y, "Ne": x != y}[base] else FALSE
            try:
                r = {"Add": lambda: x + y, "Sub": lambda: x - y, "Mul": lambda: x * y,
                     "Div": lambda: int(x / y) if y else None, "Rem": lambda: int(math.fmod(x, y)) if y else None,
                     "BitAnd": lambda: x & y, "BitOr": lambda: x | y, "BitXor": lambda: x ^ y,
                     "Shl": lambda: x << (y & 127), "Shr": lambda: x >> (y & 127)}[base]()
            except KeyError:
                r = None
            if r is not None:
                return C(wrap(r, ty), ty)
        if base in CMP:
            if is_c(b):
                return mk_in(a, ty, _cmp_rs(base, b[1], ty))
            if is_c(a):
                return mk_in(b, ty, _cmp_rs(FLIP[base], a[1], ty))
        # algebraic identities that keep the value unchanged for every input
        if base in ("Add", "BitOr", "BitXor", "Shl", "Shr", "Sub") and is_c(b) and b[1] == 0:
            return a
        if base in ("Add", "BitOr", "BitXor") and is_c(a) and a[1] == 0:
            return b
        if base == "Mul" and is_c(b) and b[1] == 1:
            return a
        if base == "Mul" and is_c(a) and a[1] == 1:
            return b
        if base == "Div" and is_c(b) and b[1] == 1:
            return a
    else:
        # floats: fold only exactly representable constant arithmetic, keep structure otherwise
        if is_c(a) and is_c(b) and isinstance(a[1], float) and isinstance(b[1], float):
            x, y = a[1], b[1]
            try:
                r = {"Add": x + y, "Sub": x - y, "Mul": x * y, "Div": x / y if y else None}.get(base)
            except (OverflowError, ZeroDivisionError):
                r = None
            if base in CMP:
                return TRUE if {"Lt": x < y, "Le": x <= y, "Gt": x > y, "Ge": x >= y, "Eq": x == y, "Ne": x != y}[base] else FALSE
            if r is not None and ty == "f64":
                return C(r, ty)
    if base in COMM and repr(b) < repr(a):
        a, b = b, a
    if base in ("Gt", "Ge"):
        base = FLIP[base]
        a, b = b, a
    return ("bin", base, a, b, ty)


def unop(op, a, ty):
    if op == "Not":
        if ty == "bool":
            return mk_not(a)
        if is_c(a):
            return C(wrap(~a[1], ty), ty)
    if op == "Neg" and is_c(a):
        if isinstance(a[1], float):
            return C(-a[1], ty)
        return C(wrap(-a[1], ty), ty)
    if op == "PtrMetadata":
        return ("len", a)
    return ("un", op, a, ty)


def cast(a, frm, to):
    if frm == to:
        return a
    if a[0] in ("cases", "ite"):
        return map_leaves(a, lambda x: cast(x, frm, to))
    if is_c(a) and frm in INT_TYS and to in INT_TYS:
        return C(wrap(a[1], to), to)
    if is_c(a) and frm in INT_TYS and to in ("f32", "f64"):
        return C(float(a[1]), to)
    if is_c(a) and frm == "f32" and to == "f64":
        return C(a[1], to)
    return ("cast", a, frm, to)


COMMUTATIVE = {"Add", "Mul", "BitAnd", "BitOr", "BitXor", "Eq", "Ne"}


def _uwiden(frm, to):
    """cast from an unsigned integer type to a type that holds all its values (value-preserving)"""
    if frm not in INT_TYS or to not in INT_TYS:
        return False
    flo, fhi = ty_range(frm)
    tlo, thi = ty_range(to)
    return flo == 0 and fhi <= thi


def _ubound(t):
    """a static upper bound of an unsigned integer term (from the widths of what it is built from), or None"""
    if not isinstance(t, tuple) or not t:
        return None
    if is_c(t) and isinstance(t[1], int) and t[1] >= 0:
        return t[1]
    if t[0] == "cast" and len(t) == 4 and t[2] in INT_TYS and t[3] in INT_TYS and ty_range(t[2])[0] == 0:
        inner = _ubound(t[1])
        cap = min(ty_range(t[2])[1], ty_range(t[3])[1]) if ty_range(t[3])[0] == 0 else ty_range(t[2])[1]
        return min(inner, cap) if inner is not None else cap
    if t[0] == "bin" and len(t) == 5 and t[4] in INT_TYS and ty_range(t[4])[0] == 0:
        a, b = _ubound(t[2]), _ubound(t[3])
        hi = ty_range(t[4])[1]
        if t[1] in ("Div",) and is_c(t[3]) and isinstance(t[3][1], int) and t[3][1] > 0:
            return (a if a is not None else hi) // t[3][1]
        if t[1] == "Shr" and is_c(t[3]) and isinstance(t[3][1], int) and 0 <= t[3][1] < 128:
            return (a if a is not None else hi) >> t[3][1]
        if t[1] == "BitAnd":
            c = [x for x in (a, b) if x is not None]
            return min(c) if c else hi
        if t[1] in ("Mul", "Add") and a is not None and b is not None:
            return min(a * b if t[1] == "Mul" else a + b, hi)
        if t[1] == "Rem" and b is not None and b > 0:
            return b - 1
        return hi
    if t[0] in ("fld", "p", "vfld"):
        return None
    return None


def norm_arith(t):
    """canonical form for comparing arithmetic written in different but equivalent ways: operands of commutative
    operators are ordered; an unsigned right shift by a constant is the division by that power of two; value-preserving
    widening casts are pushed through divisions / masks by constants and merged. Every step is an identity on values."""
    if not isinstance(t, tuple) or not t:
        return t
    t = tuple(norm_arith(x) if isinstance(x, tuple) else x for x in t)
    k = t[0]
    if k == "bin" and len(t) == 5:
        op, a, b, ty = t[1], t[2], t[3], t[4]
        if op == "Shr" and is_c(b) and isinstance(b[1], int) and ty in INT_TYS and ty_range(ty)[0] == 0 and 0 <= b[1] < 128:
            return norm_arith(("bin", "Div", a, C(1 << b[1], ty), ty))
        if op in COMMUTATIVE and repr(b) < repr(a):
            return ("bin", op, b, a, ty)
        return t
    if k == "call" and len(t) == 3 and len(t[2]) == 1 and isinstance(t[1], str) and "::" in t[1] and tuple(t[1].rsplit("::", 1)) in FROM_VARIANTS:
        return ("conv", t[2][0])          # the variant's constructor used as a function (`map_err(Enum::Variant)`)
    if k == "adt" and len(t) == 4 and len(t[3]) == 1 and (t[1], t[2]) in FROM_VARIANTS:
        return ("conv", norm_arith(t[3][0][1]))          # Enum::Variant(e) where that is the enum's From<typeof e>: the `?` conversion
    if k == "date" and len(t) == 3 and isinstance(t[1], tuple) and is_c(t[1]) and isinstance(t[1][1], int):
        return ("date", None, t[2] + t[1][1])          # a constant day count is part of the day number
    if k == "cast" and len(t) == 4:
        a, frm, to = t[1], t[2], t[3]
        if _uwiden(frm, to) and isinstance(a, tuple) and a:
            if a[0] == "cast" and len(a) == 4 and _uwiden(a[2], a[3]) and a[3] == frm:
                return norm_arith(("cast", a[1], a[2], to))
            if a[0] == "bin" and len(a) == 5 and a[1] in ("Div", "BitAnd", "Rem") and is_c(a[3]) and isinstance(a[3][1], int) and a[3][1] >= 0 and a[4] == frm:
                return norm_arith(("bin", a[1], ("cast", a[2], frm, to), C(a[3][1], to), to))
            if a[0] == "bin" and len(a) == 5 and a[1] in ("Mul", "Add") and a[4] == frm:
                # the narrower product/sum provably fits (bounds from the operands' own widths): widening commutes with it
                x, y = _ubound(a[2]), _ubound(a[3])
                if x is not None and y is not None and (x * y if a[1] == "Mul" else x + y) <= ty_range(frm)[1]:
                    return norm_arith(("bin", a[1], ("cast", a[2], frm, to), ("cast", a[3], frm, to), to))
        return t
    return t


# ---------------------------------------------------------------- evaluator
def is_await_loop(fn, body):
    """the poll loop an `.await` desugars to (contains the Yield); it is entered, and the poll model leaves it at once"""
    return any(fn.blocks[b]["term"]["t"] == "yield" for b in body) and len(body) <= 12


def normal_exit(fn, head, body):
    """exit target taken when the loop's controlling test ends the loop: the first exit edge found walking the
    blocks from the head along the straight-line prefix (the `next() == None` edge of a for loop, the false edge of a
    while test)"""
    b = head
    seen = set()
    while b in body and b not in seen:
        seen.add(b)
        ss = fn.succ_map()[b]
        outs = [s for s in ss if s not in body]
        if outs:
            return outs[0]
        t = fn.blocks[b]["term"]
        if t["t"] == "switch":
            # test block with all successors inside the loop: not the controlling test
            nxt = [s for s in ss if fn.blocks[s]["term"]["t"] != "unreachable"]
            if len(nxt) != 1:
                return None
            b = nxt[0]
        elif len(ss) == 1:
            b = ss[0]
        else:
            return None
    return None


def _leaves(t, out):
    if isinstance(t, tuple) and t and t[0] == "cases":
        for rs, x in t[3]:
            _leaves(x, out)
    elif isinstance(t, tuple) and t and t[0] == "ite":
        _leaves(t[2], out)
        _leaves(t[3], out)
    else:
        out.append(t)
    return out


class Evaluator:
    """Evaluates functions of a Prog symbolically. `models` maps callee paths to python
    functions (ev, args:list[term], call-terminator) -> term (or None to fall through)."""

    def __init__(self, prog, models=None, inline_depth=8, opaque_local=()):
        self.prog = prog
        self.models = dict(DEFAULT_MODELS)
        if models:
            self.models.update(models)
        self.inline_depth = inline_depth
        self.opaque_local = set(opaque_local)   # local fns to keep as uninterpreted calls
        self.steps = 0
        self._nest = 0
        self.cut_revisit = frozenset()
        self.deadline = float("inf")
        self.asserts = []       # (fn path, assert kind, cond term, path-condition) encountered
        self.fresh = 0
        self.stop = None        # (fn path, loop head, body set, tracked locals) for eval_loop_body
        self._joins = {}
        self._jid = 0
        self._discr_src = {}
        self._memo = {}
        self.effects = []       # opaque calls made during evaluation (may-list, in evaluation order)
        self.const_models = {}         # values of named library constants (path -> term)
        self.keep_exit_env = False     # eval_loop_body: exit leaves also carry the environment at the exit (key into exit_envs)
        self.exit_envs = {}
        self.comprehend = True          # a loop that only filters/maps an iterator into a fresh Vec becomes a ('comp', ..) value
        self.summarize_loops = False   # when set, an inner loop is replaced by a havoc of the locals it assigns
        self.no_skip = set()            # loop heads that must be entered rather than summarised

    # ---- entry points
    def eval_fn(self, path, args, depth=0):
        fn = self.prog.fn(path) if isinstance(path, str) else path
        if fn is None:
            raise Undecided("no MIR for " + str(path))
        if depth > self.inline_depth:
            raise Undecided("inline depth exceeded at " + fn.path)
        if len(args) != fn.arg_count:
            raise Undecided("arity mismatch calling %s" % fn.path)
        env = {0: ("uninit",)}
        for i, a in enumerate(args):
            env[i + 1] = a
        self._enter()
        try:
            return self._run(fn, 0, env, {}, depth)
        finally:
            self._leave()

    def _enter(self):
        # one wall-clock budget per outermost evaluation, shared by every evaluator working for it (sub-evaluations of
        # loop bodies and error arms included)
        if self._nest == 0:
            self.steps = 0
        if _ACTIVE[0] == 0:
            _ACTIVE[1] = _time.time() + EVAL_BUDGET_S
        self.deadline = _ACTIVE[1]
        _ACTIVE[0] += 1
        self._nest += 1

    def _leave(self):
        self._nest -= 1
        _ACTIVE[0] -= 1

    def run(self, fn, bb, env, visits, depth, until=None):
        """evaluate from a block, under the wall-clock budget"""
        self._enter()
        try:
            return self._run(fn, bb, env, visits, depth, until)
        finally:
            self._leave()

    def eval_loop_body(self, fn, head, body, tracked, env0=None):
        """one iteration of a natural loop, symbolically: evaluates from the loop head with every local bound to
        a fresh atom `L<i>`; leaves are ('next', (values of the tracked locals at the back edge...)) or ('exit', block)"""
        env = {i: P("L%d" % i) for i in range(len(fn.locals))}
        if env0:
            env.update(env0)
        self.stop = (fn.path, head, set(body), tuple(tracked))
        self._enter()
        try:
            return self._run(fn, head, env, {}, 0)
        finally:
            self._leave()
            self.stop = None

    def eval_self_fn(self, path):
        """evaluate a method with symbolic parameters named after the MIR argument names"""
        fn = self.prog.fn(path)
        if fn is None:
            raise Undecided("no MIR for " + path)
        args = [P(fn.local_name(i + 1) or "arg%d" % (i + 1)) for i in range(fn.arg_count)]
        return self.eval_fn(path, args)

    # ---- places
    def read_place(self, fn, env, pl):
        v = env.get(pl["l"], ("uninit",))
        for e in pl["p"]:
            v = self._project(fn, env, v, e)
        return v

    def _project(self, fn, env, v, e):
        if e == "*":
            if v[0] == "box":
                return v[1]
            if v[0] == "mref":
                return self._mref_get(env, v)
            return v
        if "f" in e:
            if v[0] == "down":
                base, vname = v[1], v[2]
                if base[0] == "adt" and base[2] == vname:
                    for n, x in base[3]:
                        if n == (e.get("name") or str(e["f"])):
                            return x
                return vfld(base, vname, e.get("name") or str(e["f"]))
            if v[0] == "tuple":
                return v[1][e["f"]]
            if v[0] == "ovf":       # (result, overflowed) pair of a checked operation
                return v[1] if e["f"] == 0 else ("ovf_flag", v[1])
            if v[0] == "closure":
                return v[2][e["f"]]
            return fld(v, e.get("name") or str(e["f"]))
        if "down" in e:
            return ("down", v, e.get("name") or str(e["down"]))
        if "last" in e:
            return ("last", v)
        if "idx" in e:
            return ("idx", v, env.get(e["idx"], ("uninit",)))
        if "cidx" in e:
            if v[0] == "array" and not e["from_end"]:
                return v[1][e["cidx"]]
            return ("idx", v, C(e["cidx"], "usize"))
        return ("proj", v, repr(e))

    def write_place(self, fn, env, pl, val):
        if not pl["p"]:
            env[pl["l"]] = val
            return
        base = env.get(pl["l"], ("uninit",))
        if base[0] == "mref" and pl["p"] and pl["p"][0] == "*":
            tgt = base[1]
            proj = _dec(base[2]) + list(pl["p"][1:])
            env[tgt] = self._update(env.get(tgt, ("uninit",)), proj, val)
            return
        env[pl["l"]] = self._update(base, pl["p"], val)

    def _mref_get(self, env, m):
        v = env.get(m[1], ("uninit",))
        for e in _dec(m[2]):
            v = self._project(None, env, v, e)
        return v

    def _mref_set(self, env, m, val):
        env[m[1]] = self._update(env.get(m[1], ("uninit",)), _dec(m[2]), val)

    def _update(self, base, proj, val):
        if not proj:
            return val
        e = proj[0]
        if e == "*":
            if base[0] == "mref":
                if proj[1:]:
                    raise Undecided("write through a nested mutable reference")
                # `*captured = v` where the capture borrows a local of another frame: the holder is unchanged; the store is
                # recorded as an effect (the borrowed local lives in the caller's frame, out of this evaluation's reach)
                self.effects.append(("<store through a captured &mut>", (base, val)))
                return base
            return self._update(base, proj[1:], val)
        if isinstance(e, dict) and "last" in e:
            return ("upd_last", base, self._update(("last", base), proj[1:], val))
        if isinstance(e, dict) and "down" in e:
            vname = e.get("name") or str(e["down"])
            if len(proj) < 2 or not (isinstance(proj[1], dict) and "f" in proj[1]):
                raise Undecided("write to a whole enum variant")
            fname = proj[1].get("name") or str(proj[1]["f"])
            if base[0] == "adt" and base[2] == vname:
                fields = tuple((n, self._update(v, proj[2:], val) if n == fname else v) for n, v in base[3])
                return ("adt", base[1], base[2], fields)
            if base[0] in ("cases", "ite"):
                return map_leaves(base, lambda x: self._update(x, proj, val) if not (x[0] == "adt" and x[2] != vname) else x)
            return ("updv", base, vname, fname, self._update(vfld(base, vname, fname), proj[2:], val))
        if isinstance(e, dict) and "f" in e:
            name = e.get("name") or str(e["f"])
            if base[0] == "adt":
                fields = tuple((n, self._update(v, proj[1:], val) if n == name else v) for n, v in base[3])
                return ("adt", base[1], base[2], fields)
            if base[0] == "tuple":
                items = list(base[1])
                items[e["f"]] = self._update(items[e["f"]], proj[1:], val)
                return ("tuple", tuple(items))
            return ("upd", base, name, self._update(fld(base, name), proj[1:], val))
        raise Undecided("write through unsupported projection %r" % (e,))

    # ---- operands / rvalues
    def operand(self, fn, env, o):
        k = o.get("k")
        if k in ("copy", "move"):
            return self.read_place(fn, env, o["pl"])
        if k == "const":
            ty = o["ty"]
            if "fn" in o:
                return ("fnptr", o["fn"], tuple(o.get("args", ())))
            if "float" in o:
                return C(float(o["float"]), ty)
            if "int" in o:
                v = o["int"]
                return C(int(v), ty)
            if "str" in o:
                return C(o["str"], "&str")
            if ty == "()":
                return UNIT
            if "promoted" in o:
                return self._promoted(fn, o["promoted"])
            if "uneval" in o and o["uneval"] in self.const_models:
                return self.const_models[o["uneval"]]
            if "uneval" in o:
                c = self.prog.consts.get(o["uneval"])
                if c and "int" in c:
                    return C(int(c["int"]), c["ty"])
                cf = self.prog.fn(o["uneval"])
                if cf is not None and cf.kind in ("Const", "AssocConst") and cf.arg_count == 0:
                    # a named constant's initialiser (lookup tables): its value is the value of its body
                    memo = self.__dict__.setdefault("_const_memo", {})
                    if cf.path not in memo:
                        try:
                            memo[cf.path] = self.eval_fn(cf, [], 1)
                        except OutOfTime:
                            raise
                        except Undecided:
                            memo[cf.path] = None
                    if memo[cf.path] is not None:
                        return memo[cf.path]
            return ("const", o.get("pp", "?"), ty)
        raise Undecided("operand %r" % (o,))

    def _promoted(self, fn, idx):
        pj = fn.promoted[idx]
        from .ir import Fn
        pf = Fn(dict(pj, path=fn.path + "::promoted[%d]" % idx, kind="Promoted", parent=fn.path), fn.crate)
        pf.promoted = fn.promoted
        return self._run(pf, 0, {0: ("uninit",)}, {}, 0)

    def rvalue(self, fn, env, s):
        r = s["rv"]
        if r == "use":
            return self.operand(fn, env, s["a"])
        if r == "ref" or r == "rawptr":
            pl = s["pl"]
            if s.get("bk", "").startswith("Mut"):
                base = env.get(pl["l"], ("uninit",))
                okp = lambda es: all(isinstance(e, dict) and ("f" in e or "down" in e) for e in es)
                enc = lambda es: tuple(("f", e.get("name") or str(e["f"]), e["f"]) if "f" in e else ("d", e.get("name") or str(e["down"]), e["down"]) for e in es)
                if pl["p"] and pl["p"][0] == "*" and base[0] == "mref":
                    rest = pl["p"][1:]
                    if okp(rest):
                        return ("mref", base[1], base[2] + enc(rest))   # reborrow (of a field / enum payload)
                elif okp(pl["p"]) and base[0] != "mref":
                    # frame-local mutable borrow of a local or of one of its (nested) fields / enum payloads
                    return ("mref", pl["l"], enc(pl["p"]))
            return self.read_place(fn, env, pl)         # shared references are transparent (value semantics)
        if r == "bin":
            a = self.operand(fn, env, s["a"])
            b = self.operand(fn, env, s["b"])
            op = s["op"]
            ty = s["ty"]
            if op.endswith("WithOverflow"):
                return ("ovf", binop(op, a, b, ty))
            if op == "Offset":
                raise Undecided("pointer arithmetic")
            return binop(op, a, b, ty)
        if r == "un":
            return unop(s["op"], self.operand(fn, env, s["a"]), s["ty"])
        if r == "cast":
            a = self.operand(fn, env, s["a"])
            ck = s["ck"]
            if ck.startswith("IntToInt") or ck.startswith("IntToFloat") or ck.startswith("FloatToInt") or ck.startswith("FloatToFloat"):
                return cast(a, s["from"]["s"], s["ty"]["s"])
            if "Unsize" in ck or "PointerCoercion" in ck or ck.startswith("PtrToPtr") or ck.startswith("Transmute") and s["from"]["s"] == s["ty"]["s"]:
                return a
            return ("cast", a, s["from"]["s"], s["ty"]["s"])
        if r == "discr":
            v = self.read_place(fn, env, s["pl"])
            d = self.discriminant(v)
            if d[0] == "discr" and d not in DISCR_DOM:
                dom = self._variant_count(fn, s["pl"])
                if dom:
                    DISCR_DOM[d] = dom
            if v[0] in ("cases", "ite") and d[0] in ("cases", "ite"):
                self._discr_src[d] = v
            return d
        if r == "agg":
            ops = [self.operand(fn, env, o) for o in s["ops"]]
            ak = s["ak"]
            if ak == "adt":
                return adt(s["adt"], s["vname"], tuple(zip(s["fields"], ops)))
            if ak == "tuple":
                return ("tuple", tuple(ops)) if ops else UNIT
            if ak == "array":
                return ("array", tuple(ops))
            if ak in ("closure", "coroutine", "coroutine_closure"):
                # a captured `&mut x` where x is itself a reference (e.g. `reader: &mut R`): references are transparent, so
                # the capture is x's current value (x, the pointer, is not reassigned through the closure)
                caps = []
                for o in ops:
                    if o[0] == "mref" and not o[2] and isinstance(o[1], int) and fn.locals[o[1]]["ty"].get("k") == "ref":
                        o = env.get(o[1], ("uninit",))
                    caps.append(o)
                return ("closure", s["def"], tuple(caps))
            raise Undecided("aggregate " + ak)
        if r == "repeat":
            return ("repeat", self.operand(fn, env, s["a"]), s.get("n"))
        raise Undecided("rvalue %s %s" % (r, s.get("pp", "")))

    def discriminant(self, v):
        if v[0] == "adt":
            a = self.prog.adts.get(v[1])
            if a:
                for var in a["variants"]:
                    if var["name"] == v[2]:
                        return C(int(var["discr"]), "isize")
            if v[1] in STD_ENUMS:
                return C(STD_ENUMS[v[1]].index(v[2]), "isize")
            raise Undecided("unknown enum " + v[1])
        if v[0] in ("cases", "ite"):
            return map_leaves(v, self.discriminant)
        if v[0] == "updv":
            return self.discriminant(v[1])
        return ("discr", v)

    def _variant_count(self, fn, pl):
        """number of variants of the enum stored in a place (from its declared type), or None"""
        ty = None
        for e in reversed(pl["p"]):
            if isinstance(e, dict) and "ty" in e and isinstance(e["ty"], str):
                ty = e["ty"]
                break
            if e == "*" or (isinstance(e, dict) and ("down" in e)):
                continue
            break
        if ty is None and not [e for e in pl["p"] if e != "*"]:
            ty = fn.locals[pl["l"]]["ty"].get("s")
        if not ty:
            return None
        ty = ty.lstrip("&").replace("mut ", "").strip()
        path = ty.split("<")[0]
        if path in STD_ENUMS:
            return ((0, len(STD_ENUMS[path]) - 1),)
        a = self.prog.adts.get(path)
        if a and a.get("variants") and str(a.get("kind", "Enum")).lower().startswith("enum"):
            try:
                return rs_norm(tuple((int(v["discr"]), int(v["discr"])) for v in a["variants"]))
            except (KeyError, TypeError, ValueError):
                return None
        return None

    def variant_of_discr(self, base, val):
        """name of the variant of base's enum type with discriminant val (for path refinement)"""
        return None

    # ---- control flow
    def _run(self, fn, bb, env, visits, depth, until=None):
        while True:
            if until and bb in until:
                self._jid += 1
                self._joins[self._jid] = (env, visits, bb)
                return ("@join", self._jid)
            self.steps += 1
            if self.steps > MAXSTEPS:
                raise Undecided("step budget exceeded in " + fn.path)
            if (self.steps & 7) == 0 and _time.time() > getattr(self, "deadline", float("inf")):
                raise OutOfTime("time budget (%ds) exceeded in %s: the value grows too large to enumerate" % (EVAL_BUDGET_S, fn.path))
            mkey = None
            if len(fn.pred_map()[bb]) > 1 and self.stop is None:
                # blocks reachable along several paths: reuse the result for an identical live environment
                live = fn.live_in()[bb]
                try:
                    mkey = (fn.path, bb, until, depth, visits.get(bb, 0), tuple((l, env.get(l)) for l in sorted(live)))
                    hit = self._memo.get(mkey)
                except TypeError:
                    mkey, hit = None, None
                if hit is not None:
                    return hit
                r = self._run_from(fn, bb, env, visits, depth, until)
                if mkey is not None:
                    self._memo[mkey] = r
                return r
            return self._run_from(fn, bb, env, visits, depth, until)

    def _run_from(self, fn, bb, env, visits, depth, until):
        first = True
        while True:
            if not first:
                if until and bb in until:
                    self._jid += 1
                    self._joins[self._jid] = (env, visits, bb)
                    return ("@join", self._jid)
                if len(fn.pred_map()[bb]) > 1 and self.stop is None:
                    return self._run(fn, bb, env, visits, depth, until)
                self.steps += 1
                if self.steps > MAXSTEPS:
                    raise Undecided("step budget exceeded in " + fn.path)
                if (self.steps & 7) == 0 and _time.time() > getattr(self, "deadline", float("inf")):
                    raise OutOfTime("time budget (%ds) exceeded in %s: the value grows too large to enumerate" % (EVAL_BUDGET_S, fn.path))
            first = False
            if self.stop is not None and fn.path == self.stop[0]:
                if bb == self.stop[1] and visits.get(bb, 0) >= 1:
                    return ("next", tuple(env.get(l, ("uninit",)) for l in self.stop[3]))
                if bb not in self.stop[2]:
                    if fn.blocks[bb]["term"]["t"] == "unreachable":
                        return ("unreachable",)
                    # leaving the loop: when the way out runs straight to the function's return, record the returned value too
                    saved = self.stop
                    self.stop = None
                    val = None
                    try:
                        if bb != normal_exit(fn, saved[1], saved[2]):
                            val = self._run(fn, bb, dict(env), {saved[1]: 1}, depth)
                    except OutOfTime:
                        raise
                    except Undecided:
                        val = None
                    finally:
                        self.stop = saved
                    return ("exit", bb, val) if not self.keep_exit_env else ("exit", bb, val, ("env", id(env), self._stash_env(env)))
            if self.comprehend and visits.get(bb, 0) == 0 and not (self.stop is not None and fn.path == self.stop[0] and bb == self.stop[1]):
                lp0 = fn.loops()
                if bb in lp0 and bb not in self.no_skip and not is_await_loop(fn, lp0[bb]):
                    r = self._comprehend(fn, bb, lp0[bb], env, visits, depth, until)
                    if r is not None:
                        return r
            if self.summarize_loops and visits.get(bb, 0) == 0:
                lp = fn.loops()
                if bb in lp and bb not in self.no_skip and not is_await_loop(fn, lp[bb]) and not (self.stop is not None and fn.path == self.stop[0] and bb == self.stop[1]):
                    return self._skip_loop(fn, bb, lp[bb], env, visits, depth, until)
            if visits.get(bb, 0) >= 1 and bb in self.cut_revisit:
                return ("noentry",)
            visits = dict(visits)
            visits[bb] = visits.get(bb, 0) + 1
            if visits[bb] > 70:
                raise Undecided("loop without constant trip count in %s (bb%d)" % (fn.path, bb))
            blk = fn.blocks[bb]
            for s in blk["stmts"]:
                if s["s"] == "assign":
                    self.write_place(fn, env, s["dst"], self.rvalue(fn, env, s))
                elif s["s"] == "setdiscr":
                    raise Undecided("SetDiscriminant")
            t = blk["term"]
            k = t["t"]
            if k == "goto":
                bb = t["target"]
                continue
            if k == "return":
                return env.get(0, UNIT)
            if k == "unreachable":
                return ("unreachable",)
            if k == "drop":
                bb = t["target"]
                continue
            if k == "assert":
                cond = self.operand(fn, env, t["cond"])
                self.asserts.append((fn.path, t["msg"]["ak"], cond, t["expected"], t["loc"]))
                bb = t["target"]
                continue
            if k == "switch":
                d = self.operand(fn, env, t["discr"])
                dty = t["dty"]
                if is_c(d):
                    nxt = t["otherwise"]
                    for val, tgt in t["arms"]:
                        if int(val) == d[1] or (dty == "bool" and int(val) == int(bool(d[1]))):
                            nxt = tgt
                            break
                    bb = nxt
                    continue
                return self._branch_join(fn, bb, t, d, dty, env, visits, depth, until)
            if k == "call":
                if t.get("target") is None:
                    # diverging call (panic): this path has no value
                    return ("panic", callee_name(t))
                res = self.call(fn, env, t, depth)
                self.write_place(fn, env, t["dest"], res)
                bb = t["target"]
                continue
            raise Undecided("terminator %s in %s" % (k, fn.path))

    def _stash_env(self, env):
        k = len(self.exit_envs)
        self.exit_envs[k] = dict(env)
        return k

    def _comprehend(self, fn, head, body, env, visits, depth, until):
        """`for x in src { ..; if c(x) { acc.push(e(x)) } }` with a fresh accumulator: the loop is the comprehension
        acc = [e(x) for x in src if c(x)], written ('comp', src, g) with g an Option-valued term over ELEM (Some(e) when
        the element is kept). Returns the evaluation continued after the loop, or None when the loop is not of that shape
        (it is then unrolled / summarised as before)."""
        try:
            return self._comprehend2(fn, head, body, env, visits, depth, until)
        except OutOfTime:
            raise
        except Undecided:
            return None

    def _comprehend2(self, fn, head, body, env, visits, depth, until):
        ne = normal_exit(fn, head, body)
        if ne is None:
            return None
        live = fn.live_in()[head]
        asg = set()
        for b in body:
            blk = fn.blocks[b]
            for st in blk["stmts"]:
                if st["s"] == "assign":
                    asg.add(st["dst"]["l"])
                    if st.get("rv") == "ref" and st.get("bk", "").startswith("Mut") and "*" not in st["pl"]["p"]:
                        asg.add(st["pl"]["l"])
            tt = blk["term"]
            if tt["t"] == "call":
                asg.add(tt["dest"]["l"])
        tracked = sorted(l for l in asg if l in env and l != 0 and l in live)
        if len(tracked) != 2:
            return None
        it_l = [l for l in tracked if "Iter" in fn.local_ty(l) or "iter::" in fn.local_ty(l) or fn.local_ty(l).startswith("core::ops::range::Range")]
        acc_l = [l for l in tracked if fn.local_ty(l).startswith("alloc::vec::Vec<")]
        if len(it_l) != 1 or len(acc_l) != 1:
            return None
        I, A = it_l[0], acc_l[0]
        a0 = env[A]
        if not (a0[0] == "call" and a0[1] in ("alloc::vec::Vec::<T>::new", "alloc::vec::Vec::<T>::with_capacity")):
            return None
        src = env[I]
        while True:
            if src[0] == "iter":
                src = src[1]
            elif src[0] == "call" and src[1].endswith("::into_iter") and len(src[2]) == 1:
                src = src[2][0]
            else:
                break
        sub = Evaluator(self.prog, inline_depth=self.inline_depth, opaque_local=self.opaque_local)
        sub.models, sub.const_models = self.models, self.const_models
        sub._skip_depth = getattr(self, "_skip_depth", 0)
        sub.summarize_loops = self.summarize_loops
        env0 = {l: v for l, v in env.items() if l not in asg}
        tree = sub.eval_loop_body(fn, head, set(body), tracked, env0)
        LI, LA = P("L%d" % I), P("L%d" % A)
        if not (tree[0] == "cases" and tree[1][0] == "discr" and tree[1][1][0] == "call" and tree[1][1][1].endswith("::next") and tree[1][1][2] == (LI,)
                and len(tree[3]) == 2):
            return None
        nxt = tree[1][1]
        some_arm = [x for rs, x in tree[3] if any(lo <= 1 <= hi for lo, hi in rs) and not any(lo <= 0 <= hi for lo, hi in rs)]
        none_arm = [x for rs, x in tree[3] if any(lo <= 0 <= hi for lo, hi in rs) and not any(lo <= 1 <= hi for lo, hi in rs)]
        if len(some_arm) != 1 or len(none_arm) != 1 or not (none_arm[0][0] == "exit" and none_arm[0][1] == ne):
            return None
        x = ("vfld", nxt, "Some", "0")
        ia, ii = tracked.index(A), tracked.index(I)
        bad = []

        def leaf(t):
            if not (isinstance(t, tuple) and t and t[0] == "next"):
                bad.append(t)
                return NONE
            vals = t[1]
            iv, av = vals[ii], vals[ia]
            if not (iv[0] == "mutated" and iv[1].endswith("::next") and iv[3] == (LI,)):
                bad.append(t)
                return NONE
            def acc(v):
                if v == LA:
                    return NONE
                if v[0] == "mutated" and v[1].endswith("::push") and v[2] == 0 and v[3][0] == LA:
                    return some(v[3][1])
                bad.append(v)
                return NONE
            return map_leaves(av, acc)
        g = map_leaves(some_arm[0], leaf)
        if bad:
            return None
        g = rebuild(g, {x: ELEM})
        # the kept/dropped decision and the element may depend on the element only
        for at in atoms(g):
            if at[0] == "p" and (at == LI or at == LA or (at[1].startswith("L") and at[1][1:].isdigit() and int(at[1][1:]) in asg)):
                return None
        if _mentions(g, nxt):
            return None
        env = dict(env)
        for l in asg:
            cur = env.get(l)
            if cur is not None and cur[0] == "mref":
                continue
            env[l] = ("after_loop", head, l, cur if cur is not None else ("uninit",))
        env[A] = ("comp", src, g)
        v2 = dict(visits)
        v2[head] = 1
        return self._run(fn, ne, env, v2, depth, until)

    def _skip_loop(self, fn, head, body, env, visits, depth, until):
        """summarise a (symbolic) inner loop: every local assigned inside it becomes an opaque atom, and evaluation
        resumes at each of the loop's exit targets under an opaque selector ('loopexit', head)"""
        env = dict(env)
        assigned = set()
        for b in body:
            blk = fn.blocks[b]
            for s in blk["stmts"]:
                if s["s"] == "assign":
                    assigned.add(s["dst"]["l"])
            tt = blk["term"]
            if tt["t"] == "call":
                assigned.add(tt["dest"]["l"])
                for a in tt["args"]:
                    if a.get("k") in ("copy", "move"):
                        ty = fn.locals[a["pl"]["l"]]["ty"]
                        if ty.get("k") == "ref" and ty.get("mut"):
                            assigned.add(a["pl"]["l"])
        # locals mutably borrowed inside the loop
        for b in body:
            for s in fn.blocks[b]["stmts"]:
                if s["s"] == "assign" and s.get("rv") == "ref" and s.get("bk", "").startswith("Mut"):
                    assigned.add(s["pl"]["l"])
        pre = dict(env)
        for l in assigned:
            cur = env.get(l)
            if cur is not None and cur[0] == "mref":
                continue
            env[l] = ("after_loop", head, l, cur if cur is not None else ("uninit",))
        exits = []
        for b in sorted(body):
            for s2 in fn.succ_map()[b]:
                if s2 not in body and s2 not in exits and fn.blocks[s2]["term"]["t"] != "unreachable":
                    exits.append(s2)
        # the normal exit (None edge of the loop's own iterator / the loop test) goes first: selector value 0
        ne = normal_exit(fn, head, body)
        if ne in exits:
            exits.remove(ne)
            exits.insert(0, ne)
        v2 = dict(visits)
        v2[head] = 1
        # ways out other than the normal exit: when the function returns an error on every path that leaves the loop there
        # (decided with the environment the path really has, not the havocked one), that arm is just that error
        err_arm = {}
        if len(exits) > 1 and self._nest < 6 and getattr(self, "_skip_depth", 0) < 3:
            try:
                sub = Evaluator(self.prog, inline_depth=self.inline_depth, opaque_local=self.opaque_local)
                sub._skip_depth = getattr(self, "_skip_depth", 0) + 1
                sub.deadline = self.deadline
                sub.models, sub.const_models = self.models, self.const_models
                sub.summarize_loops = True
                asg0 = set(assigned)
                env0 = {l: v for l, v in pre.items() if l not in asg0}
                for l in asg0:
                    v = pre.get(l)
                    if v is not None and v[0] == "adt" and v[1] == "core::ops::range::Range":
                        env0[l] = adt(v[1], v[2], (("start", P("I%d" % head)), ("end", fld(v, "end"))))     # some iteration of a range loop
                tree = sub.eval_loop_body(fn, head, set(body), (), env0)
                is_err = lambda x: isinstance(x, tuple) and len(x) > 2 and x[0] == "adt" and x[1] == "core::result::Result" and x[2] == "Err"
                allerr = True
                for lf in _leaves(tree, []):
                    if not (isinstance(lf, tuple) and lf):
                        allerr = False
                    elif lf[0] == "next" or lf == ("unreachable",) or (lf[0] == "exit" and lf[1] == exits[0]):
                        continue
                    elif lf[0] == "exit":
                        v = lf[2] if len(lf) >= 3 else None
                        lv = [x for x in _leaves(v, []) if x != ("unreachable",)] if v is not None else []
                        if not lv or not all(is_err(x) for x in lv):
                            allerr = False
                    elif not is_err(lf):          # an inner loop's error arm shows up as the returned error itself
                        allerr = False
                if allerr:
                    for e in exits[1:]:
                        err_arm[e] = err(("loop_error", fn.path, head, e))
            except OutOfTime:
                raise
            except Undecided as ex:
                if _os.environ.get("NX_DEBUG"):
                    print("DEBUG _skip_loop error-arm analysis undecided:", fn.path, head, ex)
                err_arm = {}
            if _os.environ.get("NX_DEBUG"):
                print("DEBUG _skip_loop", fn.path.split("::")[-1], "head", head, "exits", exits, "err_arm", sorted(err_arm))
        arms = []
        for i, e in enumerate(exits):
            if e in err_arm:
                arms.append((((i, i),), err_arm[e]))
                continue
            arms.append((((i, i),), self._run(fn, e, dict(env), v2, depth, until)))
        if len(arms) == 1:
            return arms[0][1]
        arms[-1] = (rs_compl(tuple(r for a in arms[:-1] for r in a[0]), "isize"), arms[-1][1])
        return mk_cases(("loopexit", fn.path, head), "isize", tuple(arms))

    def _branch_join(self, fn, bb, t, d, dty, env, visits, depth, until):
        """evaluate the arms of a symbolic branch up to their join block (immediate post-dominator), merge the
        environments there with case trees (if-conversion) and continue once; arms that leave the function
        before the join keep their own value"""
        join = fn.ipdom().get(bb, -1)
        if join == -1 or (self.stop is not None and fn.path == self.stop[0] and join not in self.stop[2]) or visits.get(join, 0) > 0 and join == bb:
            join = None
        if join is None or (until and join in until):
            return self._branch(fn, t, d, dty, env, visits, depth, until)
        inner = frozenset(until or ()) | {join}
        tree = self._branch(fn, t, d, dty, env, visits, depth, inner)
        ls = _leaves(tree, [])
        mine = [x for x in ls if isinstance(x, tuple) and x and x[0] == "@join" and self._joins[x[1]][2] == join]
        if not mine:
            return tree
        if len(mine) == len(ls):
            envs = {x[1]: self._joins[x[1]][0] for x in mine}
            keys = set()
            for e in envs.values():
                keys |= set(e)
            merged = {}
            j0 = mine[0][1]
            for l in keys:
                vals = {jid: e.get(l, ("uninit",)) for jid, e in envs.items()}
                if all(v == vals[j0] for v in vals.values()):
                    merged[l] = vals[j0]
                else:
                    merged[l] = map_leaves(tree, lambda leaf, vals=vals: vals[leaf[1]])
            v2 = self._joins[j0][1]
            return self._run(fn, join, merged, v2, depth, until)
        # mixed: continue every arm that reached the join separately

        def cont(leaf):
            if isinstance(leaf, tuple) and leaf and leaf[0] == "@join" and self._joins[leaf[1]][2] == join:
                e, v, _ = self._joins[leaf[1]]
                return self._run(fn, join, dict(e), v, depth, until)
            return leaf
        return map_leaves(tree, cont)

    def _branch(self, fn, t, d, dty, env, visits, depth, until=None):
        src = self._discr_src.get(d)
        if src is not None and src[0] == "cases":
            # branching on the discriminant of a value that is itself a case tree: split on that tree's own arms and
            # refine the environment (the value *is* the arm's leaf on that path)
            arms = []
            for rs, leaf in src[3]:
                env2 = {l: (leaf if v == src else v) for l, v in env.items()}
                dl = self.discriminant(leaf)
                if leaf[0] in ("cases", "ite") and dl[0] in ("cases", "ite"):
                    self._discr_src[dl] = leaf
                if is_c(dl):
                    nxt = t["otherwise"]
                    for val, tgt in t["arms"]:
                        if int(val) == dl[1]:
                            nxt = tgt
                            break
                    arms.append((rs, self._run(fn, nxt, env2, visits, depth, until)))
                else:
                    arms.append((rs, self._branch(fn, t, dl, dty, env2, visits, depth, until)))
            return mk_cases(src[1], src[2], tuple(arms))
        if src is not None and src[0] == "ite":
            outs = []
            for leaf in (src[2], src[3]):
                env2 = {l: (leaf if v == src else v) for l, v in env.items()}
                dl = self.discriminant(leaf)
                if leaf[0] in ("cases", "ite") and dl[0] in ("cases", "ite"):
                    self._discr_src[dl] = leaf
                if is_c(dl):
                    nxt = t["otherwise"]
                    for val, tgt in t["arms"]:
                        if int(val) == dl[1]:
                            nxt = tgt
                            break
                    outs.append(self._run(fn, nxt, env2, visits, depth, until))
                else:
                    outs.append(self._branch(fn, t, dl, dty, env2, visits, depth, until))
            return ite(src[1], outs[0], outs[1])
        if d[0] in ("cases", "ite") and visits is not None:
            # split on the scrutinee's own case structure first: each leaf is then simpler (often constant)
            def leaf(x):
                nxt = None
                if is_c(x):
                    nxt = t["otherwise"]
                    for val, tgt in t["arms"]:
                        if int(val) == x[1]:
                            nxt = tgt
                            break
                    return self._run(fn, nxt, dict(env), visits, depth, until)
                return self._branch_plain(fn, t, x, dty, env, visits, depth, until)
            return map_leaves(d, leaf)
        return self._branch_plain(fn, t, d, dty, env, visits, depth, until)

    def _branch_plain(self, fn, t, d, dty, env, visits, depth, until=None):
        if dty == "bool":
            tgt = {int(v): b for v, b in t["arms"]}
            bt = tgt.get(1, t["otherwise"])
            bf = tgt.get(0, t["otherwise"])
            vt = self._run(fn, bt, dict(env), visits, depth, until)
            vf = self._run(fn, bf, dict(env), visits, depth, until)
            if vt == ("unreachable",):
                return vf
            if vf == ("unreachable",):
                return vt
            return ite(d, vt, vf)
        ty = dty if dty in INT_TYS else "isize"
        arms = []
        taken = []
        for val, tgt in t["arms"]:
            v = wrap(int(val), ty)
            env2 = self._refine(fn, dict(env), t, d, v)
            arms.append((((v, v),), self._run(fn, tgt, env2, visits, depth, until)))
            taken.append((v, v))
        rest = rs_compl(tuple(taken), ty)
        if d[0] == "discr" and d in DISCR_DOM:
            rest = rs_inter(rest, DISCR_DOM[d])      # an enum's discriminant only takes its variants' values
        if d[0] == "discr":
            # only the enum's other variants are possible
            other = self._run(fn, t["otherwise"], dict(env), visits, depth, until)
            if other != ("unreachable",):
                arms.append((rest, other))
            else:
                # fold the unreachable default into nothing: domain is the listed variants
                arms.append((rest, ("unreachable",)))
        else:
            arms.append((rest, self._run(fn, t["otherwise"], dict(env), visits, depth, until)))
        # drop unreachable arms (their ranges are outside the value's real domain)
        live = [(rs, x) for rs, x in arms if x != ("unreachable",)]
        if len(live) == 1:
            return live[0][1]
        if len(live) < len(arms):
            # assign the unreachable part of the domain to the last live arm to keep a total partition
            dead = tuple(r for rs, x in arms if x == ("unreachable",) for r in rs)
            live[-1] = (rs_norm(live[-1][0] + dead), live[-1][1])
        return mk_cases(d, ty, tuple(live))

    def _refine(self, fn, env, t, d, v):
        return env

    # ---- calls
    def call(self, fn, env, t, depth):
        args = [self.operand(fn, env, a) for a in t["args"]]
        name = callee_name(t)
        declared = t.get("callee") or ""
        if declared == "core::future::future::Future::poll" and args:
            fut = self._mref_get(env, args[0]) if args[0][0] == "mref" else args[0]
            return _m_poll(self, [fut], t, depth)
        if name == "core::option::Option::<T>::take" and args and args[0][0] == "mref":
            cur = self._mref_get(env, args[0])
            self._mref_set(env, args[0], NONE)
            return cur
        if name == "core::option::Option::<T>::replace" and args and args[0][0] == "mref":
            cur = self._mref_get(env, args[0])
            self._mref_set(env, args[0], some(args[1]))
            return cur
        if name in ("core::slice::<impl [T]>::last_mut", "alloc::vec::Vec::<T, A>::last_mut") and args and args[0][0] == "mref":
            cur = self._mref_get(env, args[0])
            empty = ("call", "core::slice::<impl [T]>::is_empty", (cur,))
            return ite(empty, NONE, some(("mref", args[0][1], args[0][2] + (("last", "last", 0),))))
        if name == "core::option::Option::<T>::as_mut" and args and args[0][0] == "mref":
            cur = self._mref_get(env, args[0])
            return opt_match(cur, lambda x: some(("mref", args[0][1], args[0][2] + (("d", "Some", 1), ("f", "0", 0)))), lambda: NONE)
        if declared == "core::iter::traits::iterator::Iterator::next" and len(args) == 1 and args[0][0] == "mref" and name not in (RANGE_NEXT, RANGEINC_NEXT):
            cur = self._mref_get(env, args[0])
            base, pos = (cur[1], cur[2]) if cur[0] == "advanced" else (cur, 0)
            if base[0] in ("call", "iter", "iop", "imap", "ifilter", "ifiltermap") and self.prog.fn(name) is None:
                # the k-th call of next() on an iterator value yields its k-th element: one name for `it.nth(k)` and for
                # k+1 explicit next() calls
                self._mref_set(env, args[0], ("advanced", base, pos + 1))
                return ("call", "core::iter::traits::iterator::Iterator::nth", (base, C(pos, "usize")))
        if declared == "core::iter::traits::double_ended::DoubleEndedIterator::next_back" and len(args) == 1 and args[0][0] == "mref":
            cur = self._mref_get(env, args[0])
            if cur[0] in ("call", "iter", "iop", "imap") and cur[0] != "advanced" and self.prog.fn(name) is None:
                # the first next_back() of an iterator nothing was taken from yet is its last element (DoubleEndedIterator's
                # contract: both ends walk the same sequence)
                self._mref_set(env, args[0], ("mutated", name, 0, (cur,)))
                return ("call", "core::iter::traits::iterator::Iterator::last", (cur,))
        if name in ("core::mem::take", "core::mem::replace") and args and args[0][0] == "mref":
            cur = self._mref_get(env, args[0])
            if name.endswith("replace"):
                self._mref_set(env, args[0], args[1])
                return cur
            tys = [x["d"]["s"] for x in t.get("targs", [])]
            ty = tys[0] if tys else ""
            dflt = None
            if ty.startswith("alloc::vec::Vec<"):
                dflt = ("call", "alloc::vec::Vec::<T>::new", ())
            elif ty.startswith("core::option::Option<"):
                dflt = NONE
            elif ty == "alloc::string::String":
                dflt = ("call", "alloc::string::String::new", ())
            elif ty in INT_TYS:
                dflt = C(0, ty)
            elif ty == "bool":
                dflt = FALSE
            if dflt is not None:
                self._mref_set(env, args[0], dflt)
                return cur
        if name in (RANGE_NEXT, RANGEINC_NEXT) and args and args[0][0] == "mref" and not args[0][2]:
            cur = env.get(args[0][1], ("uninit",))
            if name == RANGEINC_NEXT and not (cur[0] == "adt" and cur[1] == "core::ops::range::Range"):
                raise Undecided("RangeInclusive::next on a range whose end + 1 is not known to be representable")
            if cur[0] == "adt" and cur[1] == "core::ops::range::Range":
                lo, hi = fld(cur, "start"), fld(cur, "end")
                if is_c(lo) and is_c(hi):
                    if lo[1] < hi[1]:
                        env[args[0][1]] = adt(cur[1], cur[2], (("start", C(lo[1] + 1, lo[2])), ("end", hi)))
                        return some(lo)
                    return NONE
                # symbolic bounds: one step of the iterator as a closed form
                c = binop("Lt", lo, hi, lo[2] if is_c(lo) else (hi[2] if is_c(hi) else self._int_ty(t)))
                ty = self._int_ty(t)
                env[args[0][1]] = adt(cur[1], cur[2], (("start", ite(c, binop("Add", lo, C(1, ty), ty), lo)), ("end", hi)))
                return ite(c, some(lo), NONE)
            raise Undecided("Range::next on a value that is not a Range aggregate (local %s = %r)" % (args[0][1], cur[:3]))
        if len(args) == 2 and args[0][0] == "mref" and _re.search(r"core::ops::arith::(Add|Sub|Mul|Div)Assign(<.*>)?>::(add|sub|mul|div)_assign$", name):
            # `x op= y` through the operator trait is `x = x op y`
            cur = self._mref_get(env, args[0])
            nm = _re.sub(r"(Add|Sub|Mul|Div)Assign", lambda m: m.group(1), name)
            nm = _re.sub(r"::(add|sub|mul|div)_assign$", lambda m: "::" + m.group(1), nm)
            self._mref_set(env, args[0], ("call", nm, (cur, args[1])))
            return UNIT
        if any(a[0] == "mref" for a in args if isinstance(a, tuple) and a):
            m0 = self.models.get(name) or self.models.get(declared)
            if m0 is None:
                # unknown effect on the borrowed local: its value becomes an opaque function of the call
                vals = [self._mref_get(env, a) if a[0] == "mref" else a for a in args]
                res = ("call", name, tuple(vals))
                for i, a in enumerate(args):
                    if a[0] == "mref":
                        self._mref_set(env, a, ("mutated", name, i, tuple(vals)))
                return res
        nc = _num_conv(name, t)
        if nc is not None and len(args) == 1:
            return cast(args[0], nc[0], nc[1])
        if len(args) == 1 and _str_conv(name, t):
            return args[0]          # &str -> String and back: the same text (value semantics)
        for key in (name, declared):
            m = self.models.get(key)
            if m is not None:
                r = m(self, args, t, depth)
                if r is not None:
                    return r
        if is_uom_new(name):
            return _m_uom_new(self, args, t, depth)
        if name.startswith("uom::si::") and name.endswith(">::get") and args and args[0][0] == "uom":
            units = tuple(x["d"]["s"] for x in t.get("targs", []))
            if units and units[-1] == args[0][1][-1]:
                return args[0][2]           # get::<U>(new::<U>(x)) = x
        target = self.prog.fn(name) or self.prog.fn(declared)
        if target is None and declared in ("core::cmp::PartialEq::eq", "core::cmp::PartialEq::ne") and len(args) == 2:
            # equality of a library type: an uninterpreted symmetric relation on values; `ne` is its negation
            return _m_eq(self, args, t, depth) if declared.endswith("::eq") else _m_ne(self, args, t, depth)
        if target is not None and target.kind == "Closure" and declared.startswith("core::ops::function::Fn") and len(args) == 2:
            # `f(a, b)` on a closure value is Fn::call(&f, (a, b)): the closure body takes the arguments untupled
            packed = args[1]
            if packed[0] == "tuple":
                args = [args[0]] + list(packed[1])
            elif packed == UNIT:
                args = [args[0]]
        if target is not None and target.path not in self.opaque_local and not target.is_coroutine:
            return self.eval_fn(target, args, depth + 1)
        self.effects.append((name, tuple(args)))
        if target is not None and t.get("targs"):
            # keep the instantiation visible for opaque generic helpers (deserialize::<R, Header> vs ::<R, Block>)
            tys = [x["d"]["s"] for x in t["targs"] if x["d"].get("k") != "param"]
            if tys:
                name = "%s::<%s>" % (name, ", ".join(tys))
        return ("call", name, tuple(args))

    def _int_ty(self, t):
        for ta in t.get("targs", []):
            s = ta["d"]["s"]
            if s in INT_TYS:
                return s
            if "Range<" in s or "RangeInclusive<" in s:
                inner = s.split("Range<")[1].split(">")[0] if "Range<" in s else s.split("RangeInclusive<")[1].split(">")[0]
                if inner in INT_TYS:
                    return inner
        return "usize"

    def apply_closure(self, clo, args, depth):
        """call a closure/fn term with argument terms"""
        if clo[0] == "closure":
            f = self.prog.fn(clo[1])
            if f is None:
                raise Undecided("closure body missing: " + clo[1])
            # closure bodies take (self: closure env, args...)
            return self.eval_fn(f, [clo] + list(args), depth + 1)
        if clo[0] == "fnptr":
            f = self.prog.fn(clo[1])
            if f is not None:
                return self.eval_fn(f, list(args), depth + 1)
            m = self.models.get(clo[1])
            if m is not None:
                r = m(self, list(args), None, depth)
                if r is not None:
                    return r
            return ("call", clo[1], tuple(args))
        raise Undecided("call of non-closure term %r" % (clo[:2],))

    def fresh_atom(self, hint):
        self.fresh += 1
        return ("p", "%s#%d" % (hint, self.fresh))


RANGE_NEXT = "core::iter::range::<impl core::iter::traits::iterator::Iterator for core::ops::range::Range<A>>::next"
RANGEINC_NEXT = "core::iter::range::<impl core::iter::traits::iterator::Iterator for core::ops::range::RangeInclusive<A>>::next"
def _dec(proj):
    return [{"f": e[2], "name": e[1]} if e[0] == "f" else ({"last": True} if e[0] == "last" else {"down": e[2], "name": e[1]}) for e in proj]


STD_ENUMS = {"core::option::Option": ["None", "Some"], "core::result::Result": ["Ok", "Err"],
             "core::ops::control_flow::ControlFlow": ["Continue", "Break"], "core::task::poll::Poll": ["Ready", "Pending"]}


def callee_name(t):
    return t.get("resolved") or t.get("callee") or "<indirect>"


# ---------------------------------------------------------------- library models (pure functions with equations)
def opt_match(o, on_some, on_none):
    if o[0] == "adt" and o[1] == "core::option::Option":
        return on_some(o[3][0][1]) if o[2] == "Some" else on_none()
    if o[0] in ("cases", "ite"):
        return map_leaves(o, lambda x: opt_match(x, on_some, on_none))
    if o[0] in ("panic", "unreachable"):
        return o
    d = ("discr", o)
    DISCR_DOM.setdefault(d, ((0, 1),))
    return mk_cases(d, "isize", ((((1, 1),), on_some(("vfld", o, "Some", "0"))), (rs_compl(((1, 1),), "isize"), on_none())))


def res_match(r, on_ok, on_err):
    if r[0] == "adt" and r[1] == "core::result::Result":
        return on_ok(r[3][0][1]) if r[2] == "Ok" else on_err(r[3][0][1])
    if r[0] in ("cases", "ite"):
        return map_leaves(r, lambda x: res_match(x, on_ok, on_err))
    if r[0] in ("panic", "unreachable"):
        return r
    d = ("discr", r)
    DISCR_DOM.setdefault(d, ((0, 1),))
    return mk_cases(d, "isize", ((((0, 0),), on_ok(("vfld", r, "Ok", "0"))), (rs_compl(((0, 0),), "isize"), on_err(("vfld", r, "Err", "0")))))


def cf_continue(x):
    return adt("core::ops::control_flow::ControlFlow", "Continue", (("0", x),))


def cf_break(x):
    return adt("core::ops::control_flow::ControlFlow", "Break", (("0", x),))


def _ident(ev, a, t, d):
    return a[0]


def _m_opt_map(ev, a, t, d):
    return opt_match(a[0], lambda x: some(ev.apply_closure(a[1], [x], d)), lambda: NONE)


def _m_opt_and_then(ev, a, t, d):
    return opt_match(a[0], lambda x: ev.apply_closure(a[1], [x], d), lambda: NONE)


def _m_opt_ok_or(ev, a, t, d):
    return opt_match(a[0], lambda x: ok(x), lambda: err(a[1]))


def _m_opt_ok_or_else(ev, a, t, d):
    return opt_match(a[0], lambda x: ok(x), lambda: err(ev.apply_closure(a[1], [], d)))


def _m_opt_unwrap_or(ev, a, t, d):
    return opt_match(a[0], lambda x: x, lambda: a[1])


def _m_opt_unwrap_or_else(ev, a, t, d):
    return opt_match(a[0], lambda x: x, lambda: ev.apply_closure(a[1], [], d))


def _m_opt_is_some(ev, a, t, d):
    return opt_match(a[0], lambda x: TRUE, lambda: FALSE)


def _m_opt_is_none(ev, a, t, d):
    return opt_match(a[0], lambda x: FALSE, lambda: TRUE)


def _m_opt_is_some_and(ev, a, t, d):
    return opt_match(a[0], lambda x: ev.apply_closure(a[1], [x], d), lambda: FALSE)


def _m_opt_or_else(ev, a, t, d):
    return opt_match(a[0], lambda x: some(x), lambda: ev.apply_closure(a[1], [], d))


def _m_opt_or(ev, a, t, d):
    return opt_match(a[0], lambda x: some(x), lambda: a[1])


def _m_opt_filter(ev, a, t, d):
    return opt_match(a[0], lambda x: ite(ev.apply_closure(a[1], [x], d), some(x), NONE), lambda: NONE)


def _m_opt_flatten(ev, a, t, d):
    return opt_match(a[0], lambda x: x, lambda: NONE)


def _m_opt_zip(ev, a, t, d):
    return opt_match(a[0], lambda x: opt_match(a[1], lambda y: some(("tuple", (x, y))), lambda: NONE), lambda: NONE)


def _m_opt_map_or(ev, a, t, d):
    return opt_match(a[0], lambda x: ev.apply_closure(a[2], [x], d), lambda: a[1])


def _m_opt_map_or_else(ev, a, t, d):
    return opt_match(a[0], lambda x: ev.apply_closure(a[2], [x], d), lambda: ev.apply_closure(a[1], [], d))


def _m_opt_is_none_or(ev, a, t, d):
    return opt_match(a[0], lambda x: ev.apply_closure(a[1], [x], d), lambda: TRUE)


def _m_then_some(ev, a, t, d):
    return ite(a[0], some(a[1]), NONE)


def _m_then(ev, a, t, d):
    return ite(a[0], some(ev.apply_closure(a[1], [], d)), NONE)


def _m_res_and_then(ev, a, t, d):
    return res_match(a[0], lambda x: ev.apply_closure(a[1], [x], d), lambda e: err(e))


def _m_res_or_else(ev, a, t, d):
    return res_match(a[0], lambda x: ok(x), lambda e: ev.apply_closure(a[1], [e], d))


def _m_res_unwrap_or(ev, a, t, d):
    return res_match(a[0], lambda x: x, lambda e: a[1])


def _m_res_unwrap_or_else(ev, a, t, d):
    return res_match(a[0], lambda x: x, lambda e: ev.apply_closure(a[1], [e], d))


def _m_res_map_or(ev, a, t, d):
    return res_match(a[0], lambda x: ev.apply_closure(a[2], [x], d), lambda e: a[1])


def _m_res_err(ev, a, t, d):
    return res_match(a[0], lambda x: NONE, lambda e: some(e))


def _m_res_is_err(ev, a, t, d):
    return res_match(a[0], lambda x: FALSE, lambda e: TRUE)


def _int_ty_of(t):
    c = (t or {}).get("callee") or ""
    if "<impl " in c:
        ty = c.split("<impl ")[1].split(">")[0]
        if ty in INT_TYS:
            return ty
    return None


def _m_checked(op):
    def f(ev, a, t, d):
        ty = _int_ty_of(t)
        if ty is None:
            return None
        lo, hi = ty_range(ty)
        if op == "Sub" and lo == 0:
            return ite(binop("Le", a[1], a[0], ty), some(binop("Sub", a[0], a[1], ty)), NONE)
        return None
    return f


def _m_is_negative(ev, a, t, d):
    ty = _int_ty_of(t)
    return binop("Lt", a[0], C(0, ty), ty) if ty else None


def _m_is_positive(ev, a, t, d):
    ty = _int_ty_of(t)
    return binop("Gt", a[0], C(0, ty), ty) if ty else None


def _m_slice_get(ev, a, t, d):
    """`slice.get(i)` on an explicit array (a lookup table): the element for each in-range index, None beyond"""
    arr, i = a
    if arr[0] != "array" or len(arr[1]) > 4096:
        return None
    ity = (t or {}).get("targs") and [x["d"]["s"] for x in t["targs"]]
    if ity and not any(x == "usize" for x in ity):
        return None                 # a range index (sub-slice), not an element lookup
    if is_c(i) and isinstance(i[1], int):
        return some(arr[1][i[1]]) if 0 <= i[1] < len(arr[1]) else NONE
    if i[0] == "adt":
        return None
    arms = tuple((((k, k),), some(x)) for k, x in enumerate(arr[1]))
    arms += ((rs_compl(tuple((k, k) for k in range(len(arr[1]))), "usize"), NONE),)
    return mk_cases(i, "usize", arms)


def _m_opt_branch(ev, a, t, d):
    return opt_match(a[0], lambda x: cf_continue(x), lambda: cf_break(NONE))


def _m_opt_from_residual(ev, a, t, d):
    return NONE


def _m_res_branch(ev, a, t, d):
    return res_match(a[0], lambda x: cf_continue(x), lambda e: cf_break(err(e)))


def _m_res_from_residual(ev, a, t, d):
    # `?` between equal error types goes through `impl<T> From<T> for T`: the identity
    tys = [ta["d"].get("s") for ta in (t.get("targs") or [])] if isinstance(t, dict) else []
    if len(tys) == 2 and tys[0] and tys[1] and tys[0].startswith("core::result::Result<") and tys[1].startswith("core::result::Result<core::convert::Infallible, "):
        e_to = tys[0][:-1].rsplit(", ", 1)[-1]
        e_from = tys[1][len("core::result::Result<core::convert::Infallible, "):-1]
        if e_to == e_from and "<" not in e_to:
            return res_match(a[0], lambda x: ("unreachable",), lambda e: err(e))
    return res_match(a[0], lambda x: ("unreachable",), lambda e: err(("conv", e)))


def _m_res_map(ev, a, t, d):
    return res_match(a[0], lambda x: ok(ev.apply_closure(a[1], [x], d)), lambda e: err(e))


def _m_res_map_err(ev, a, t, d):
    return res_match(a[0], lambda x: ok(x), lambda e: err(ev.apply_closure(a[1], [e], d)))


def _m_res_ok(ev, a, t, d):
    return res_match(a[0], lambda x: some(x), lambda e: NONE)


def _m_res_is_ok(ev, a, t, d):
    return res_match(a[0], lambda x: TRUE, lambda e: FALSE)


def _m_eq(ev, a, t, d):
    x, y = a
    if is_c(x) and is_c(y):
        return TRUE if x[1] == y[1] else FALSE
    if repr(y) < repr(x):
        x, y = y, x
    return ("bin", "Eq", x, y, "val")


def _m_ne(ev, a, t, d):
    return mk_not(_m_eq(ev, a, t, d))


def _m_from_be_bytes(ev, a, t, d):
    return ("be", a[0], t["callee"].split("impl ")[1].split(">")[0] if t else "?")


def _m_unsigned_abs(ev, a, t, d):
    return ("un", "unsigned_abs", a[0], "i32")


def _m_size_of(ev, a, t, d):
    sz = t["targs"][0].get("size")
    if sz is None:
        raise Undecided("size_of of a non-monomorphic type")
    return C(int(sz), "usize")


def _m_range_next(ev, a, t, d):
    raise Undecided("Range::next outside a frame-local &mut")


def _m_uom_new(ev, a, t, d):
    unit = t["targs"][-1]["d"]["s"] if t and t.get("targs") else "?"
    units = [x["d"]["s"] for x in t["targs"]] if t else []
    return ("uom", tuple(units), a[0])


def _m_powf(ev, a, t, d):
    if is_c(a[0]) and is_c(a[1]):
        try:
            return C(float(a[0][1]) ** float(a[1][1]), "f64")
        except OverflowError:
            pass
    return ("call", "powf", tuple(a))


def _m_iter(ev, a, t, d):
    return ("iter", a[0])


def _m_imap(ev, a, t, d):
    return ("imap", a[0], a[1])


def _m_ifilter(ev, a, t, d):
    return ("ifilter", a[0], a[1])


def _m_ifilter_map(ev, a, t, d):
    return ("ifiltermap", a[0], a[1])


ELEM = ("p", "$elem")


def _m_collect(ev, a, t, d):
    return _collect(ev, a[0], d)


def _collect(ev, it, d):
    """elementwise closed form of an iterator chain: ('seq', source, ops) where ops is a tuple of
    ('map', body) | ('filter', body) | ('filtermap', body) with bodies over the element atom"""
    ops = []
    cur = it
    while True:
        if cur[0] == "imap":
            ops.append(("map", cur[2]))
            cur = cur[1]
        elif cur[0] == "ifilter":
            ops.append(("filter", cur[2]))
            cur = cur[1]
        elif cur[0] == "ifiltermap":
            ops.append(("filtermap", cur[2]))
            cur = cur[1]
        elif cur[0] == "iop":
            ops.append((cur[1], cur[3]))
            cur = cur[2]
        elif cur[0] == "iter":
            src = cur[1]
            break
        elif cur[0] in ("cases", "ite"):
            return map_leaves(cur, lambda x: _collect(ev, x, d))
        elif cur[0] in ("call", "p", "fld", "vfld") or (cur[0] == "adt" and cur[1].startswith("core::ops::range::Range")):
            src = cur           # an opaque iterator value (e.g. str::split(..)) or a range is its own source
            break
        else:
            raise Undecided("collect over unsupported iterator %r" % (cur[0],))
    ops.reverse()
    body = ELEM
    out = []
    for kind, clo in ops:
        if kind == "map":
            body = ev.apply_closure(clo, [body], d)
        elif kind not in ("filter", "filtermap"):
            # any other adaptor (take_while, skip, rev, take, ...) is recorded by name with its argument
            arg = clo
            if isinstance(clo, tuple) and clo and clo[0] == "closure":
                arg = ev.apply_closure(clo, [body], d)
            out.append((kind, body, arg))
        else:
            out.append((kind, body, ev.apply_closure(clo, [body if kind == "filtermap" else body], d)))
            if kind == "filtermap":
                body = ("vfld", out[-1][2], "Some", "0") if out[-1][2][0] != "adt" else out[-1][2]
    return ("seq", src, tuple(out), body)


def _find_array(t):
    if isinstance(t, tuple) and t:
        if t[0] == "array":
            return t
        for x in (t if isinstance(t[0], tuple) else t[1:]):
            if isinstance(x, tuple):
                r = _find_array(x)
                if r is not None:
                    return r
    return None


def _m_vec_macro(ev, a, t, d):
    """`vec![a, b, ..]` (a boxed array turned into a Vec): the vector of exactly those elements"""
    arr = _find_array(a[0])
    if arr is None:
        return None
    return arr


def _m_box_new(ev, a, t, d):
    return a[0]


def _m_i_abs(ev, a, t, d):
    return ("un", "abs", a[0], "i16")


def _m_contains(ev, a, t, d):
    r, x = a
    if r[0] == "adt" and r[1].endswith("RangeInclusive") and is_c(fld(r, "start")) and is_c(fld(r, "end")):
        ty = fld(r, "start")[2]
        return mk_in(x, ty, ((fld(r, "start")[1], fld(r, "end")[1]),))
    return ("call", "contains", tuple(a))


def _m_rangeinc_new(ev, a, t, d):
    return adt("core::ops::range::RangeInclusive", "RangeInclusive", (("start", a[0]), ("end", a[1])))


def _m_chunks(ev, a, t, d):
    return ("iter", ("chunks", a[0], a[1]))


def parse_byte_literal(s):
    """bytes of a Rust byte-string literal as pretty-printed by rustc (backslash-x escapes)"""
    if not (s.startswith('b"') and s.endswith('"')):
        return None
    s = s[2:-1]
    out = bytearray()
    i = 0
    while i < len(s):
        c = s[i]
        if c == "\\":
            n = s[i + 1]
            if n == "x":
                out.append(int(s[i + 2:i + 4], 16))
                i += 4
                continue
            out.append({"n": 10, "r": 13, "t": 9, "0": 0, "\\": 92, '"': 34, "'": 39}[n])
            i += 2
            continue
        out += c.encode("utf-8")
        i += 1
    return bytes(out)


def parse_fmt_template(b):
    """decode core::fmt::Arguments' byte template into a tuple of ('lit', text) | ('arg', flags, width, precision, index)"""
    out = []
    i = 0
    nxt = 0
    while i < len(b):
        n = b[i]
        i += 1
        if n == 0:
            break
        if n < 0x80:
            out.append(("lit", b[i:i + n].decode("utf-8", "replace")))
            i += n
        elif n == 0x80:
            ln = int.from_bytes(b[i:i + 2], "little")
            i += 2
            out.append(("lit", b[i:i + ln].decode("utf-8", "replace")))
            i += ln
        else:
            flags = width = prec = None
            idx = nxt
            if n & 1:
                flags = int.from_bytes(b[i:i + 4], "little")
                i += 4
            if n & 2:
                width = int.from_bytes(b[i:i + 2], "little")
                i += 2
            if n & 4:
                prec = int.from_bytes(b[i:i + 2], "little")
                i += 2
            if n & 8:
                idx = int.from_bytes(b[i:i + 2], "little")
                i += 2
            out.append(("arg", flags, ("dyn", width) if n & 16 else width, ("dyn", prec) if n & 32 else prec, idx))
            nxt = idx + 1
    # merge adjacent literals
    merged = []
    for x in out:
        if merged and x[0] == "lit" and merged[-1][0] == "lit":
            merged[-1] = ("lit", merged[-1][1] + x[1])
        else:
            merged.append(x)
    return tuple(merged)


def _m_fmt_args_new(ev, a, t, d):
    tpl = a[0]
    raw = None
    if tpl[0] == "const":
        raw = parse_byte_literal(tpl[1])
    if raw is None:
        return ("call", "core::fmt::Arguments::new", tuple(a))
    args = a[1][1] if a[1][0] == "array" else (a[1],)
    return ("fmtargs", parse_fmt_template(raw), tuple(args))


def _m_fmt_from_str(ev, a, t, d):
    if is_c(a[0]):
        return ("fmtargs", (("lit", a[0][1]),), ())
    return ("call", "core::fmt::Arguments::from_str", tuple(a))


def _m_format(ev, a, t, d):
    if a[0][0] == "fmtargs":
        return ("fmt", a[0][1], a[0][2])
    return ("call", "alloc::fmt::format", tuple(a))


def _m_disp(ev, a, t, d):
    # a char displays as the one-character string
    return ("disp", map_leaves(a[0], lambda x: C(chr(x[1]), "&str") if (is_c(x) and x[2] == "char" and isinstance(x[1], int)) else x))


def _m_dbg(ev, a, t, d):
    return ("dbg", a[0])


def _m_discriminant_value(ev, a, t, d):
    return ev.discriminant(a[0])


def _m_poll(ev, a, t, d):
    fut = a[0]
    return adt("core::task::poll::Poll", "Ready", (("0", ("await", fut)),))


def _m_iop(name):
    def f(ev, a, t, d):
        return ("iop", name, a[0], a[1] if len(a) > 1 else UNIT)
    return f


def _m_str_ends_with(ev, a, t, d):
    # s.ends_with(c) for a single char c: the last char of s exists and is c (core docs: a char pattern matches that char)
    tys = [x["d"]["s"] for x in t.get("targs", [])]
    if len(a) == 2 and tys == ["char"]:
        last = ("call", "core::iter::traits::iterator::Iterator::last", (("call", "core::str::<impl str>::chars", (a[0],)),))
        return opt_match(last, lambda c: binop("Eq", c, a[1], "char"), lambda: FALSE)
    return None


def _m_str_starts_with(ev, a, t, d):
    tys = [x["d"]["s"] for x in t.get("targs", [])]
    if len(a) == 2 and tys == ["char"]:
        first = ("call", "core::iter::traits::iterator::Iterator::nth", (("call", "core::str::<impl str>::chars", (a[0],)), C(0, "usize")))
        return opt_match(first, lambda c: binop("Eq", c, a[1], "char"), lambda: FALSE)
    return None


def _m_into_iter(ev, a, t, d):
    """iterating `a..=b` visits the same values as `a..b+1` when b + 1 is representable: the inclusive range is handed to the
    loop machinery as that half-open range (b a constant below the type's maximum, or a difference `x - k`, k >= 1)"""
    r = a[0]
    if r[0] == "adt" and r[1] == "core::ops::range::RangeInclusive":
        lo, hi = fld(r, "start"), fld(r, "end")
        ty = lo[2] if is_c(lo) else (hi[2] if is_c(hi) else (hi[4] if hi[0] == "bin" and len(hi) == 5 else None))
        if ty in INT_TYS:
            if is_c(hi) and isinstance(hi[1], int) and hi[1] < ty_range(ty)[1]:
                return adt("core::ops::range::Range", "Range", (("start", lo), ("end", C(hi[1] + 1, ty))))
            if hi[0] == "bin" and len(hi) == 5 and hi[1] == "Sub" and is_c(hi[3]) and isinstance(hi[3][1], int) and hi[3][1] >= 1 and hi[4] == ty:
                end = hi[2] if hi[3][1] == 1 else binop("Sub", hi[2], C(hi[3][1] - 1, ty), ty)
                return adt("core::ops::range::Range", "Range", (("start", lo), ("end", end)))
    return r


DEFAULT_MODELS = {
    "core::str::<impl str>::ends_with": _m_str_ends_with,
    "core::str::<impl str>::starts_with": _m_str_starts_with,
    "core::option::Option::<T>::map": _m_opt_map,
    "core::option::Option::<T>::and_then": _m_opt_and_then,
    "core::option::Option::<T>::ok_or": _m_opt_ok_or,
    "core::option::Option::<T>::ok_or_else": _m_opt_ok_or_else,
    "core::option::Option::<T>::unwrap_or": _m_opt_unwrap_or,
    "core::option::Option::<T>::unwrap_or_else": _m_opt_unwrap_or_else,
    "core::option::Option::<T>::is_some": _m_opt_is_some,
    "core::option::Option::<T>::is_none": _m_opt_is_none,
    "core::option::Option::<T>::is_some_and": _m_opt_is_some_and,
    "core::option::Option::<T>::as_ref": _ident,
    "core::option::Option::<T>::as_deref": _ident,
    "core::option::Option::<T>::or_else": _m_opt_or_else,
    "core::option::Option::<T>::or": _m_opt_or,
    "core::option::Option::<T>::filter": _m_opt_filter,
    "core::option::Option::<core::option::Option<T>>::flatten": _m_opt_flatten,
    "core::option::Option::<T>::zip": _m_opt_zip,
    "core::option::Option::<T>::map_or": _m_opt_map_or,
    "core::option::Option::<T>::map_or_else": _m_opt_map_or_else,
    "core::option::Option::<T>::is_none_or": _m_opt_is_none_or,
    "core::bool::<impl bool>::then_some": _m_then_some,
    "core::bool::<impl bool>::then": _m_then,
    "core::result::Result::<T, E>::and_then": _m_res_and_then,
    "core::result::Result::<T, E>::or_else": _m_res_or_else,
    "core::result::Result::<T, E>::unwrap_or": _m_res_unwrap_or,
    "core::result::Result::<T, E>::unwrap_or_else": _m_res_unwrap_or_else,
    "core::result::Result::<T, E>::map_or": _m_res_map_or,
    "core::result::Result::<T, E>::err": _m_res_err,
    "core::result::Result::<T, E>::is_err": _m_res_is_err,
    "core::result::Result::<T, E>::as_ref": _ident,
    "core::option::Option::<&mut T>::copied": _ident,
    "core::option::Option::<&mut T>::cloned": _ident,
    "core::option::Option::<&T>::cloned": _ident,
    "core::option::Option::<&T>::copied": _ident,
    "<core::option::Option<T> as core::ops::try_trait::Try>::branch": _m_opt_branch,
    "<core::option::Option<T> as core::ops::try_trait::FromResidual<core::option::Option<core::convert::Infallible>>>::from_residual": _m_opt_from_residual,
    "<core::result::Result<T, E> as core::ops::try_trait::Try>::branch": _m_res_branch,
    "<core::result::Result<T, F> as core::ops::try_trait::FromResidual<core::result::Result<core::convert::Infallible, E>>>::from_residual": _m_res_from_residual,
    "core::result::Result::<T, E>::map": _m_res_map,
    "core::result::Result::<T, E>::map_err": _m_res_map_err,
    "core::result::Result::<T, E>::ok": _m_res_ok,
    "core::result::Result::<T, E>::is_ok": _m_res_is_ok,
    "<alloc::string::String as core::ops::deref::Deref>::deref": _ident,
    "<alloc::vec::Vec<T, A> as core::ops::deref::Deref>::deref": _ident,
    "<alloc::sync::Arc<T, A> as core::ops::deref::Deref>::deref": _ident,
    "<alloc::vec::Vec<T, A> as core::ops::deref::DerefMut>::deref_mut": _ident,
    "<alloc::string::String as core::ops::deref::DerefMut>::deref_mut": _ident,
    "alloc::vec::Vec::<T, A>::as_mut_slice": _ident,
    "core::array::<impl [T; N]>::as_slice": _ident,
    "core::hint::must_use": _ident,
    "core::clone::Clone::clone": _ident,
    "core::future::future::Future::poll": _m_poll,
    "core::pin::Pin::<Ptr>::new_unchecked": _ident,
    "<F as core::future::into_future::IntoFuture>::into_future": _ident,
    "core::future::into_future::IntoFuture::into_future": _ident,
    "core::intrinsics::discriminant_value": _m_discriminant_value,
    "core::fmt::Arguments::<'a>::new": _m_fmt_args_new,
    "core::fmt::Arguments::<'a>::from_str": _m_fmt_from_str,
    "alloc::fmt::format": _m_format,
    "core::fmt::rt::Argument::<'_>::new_display": _m_disp,
    "core::fmt::rt::Argument::<'_>::new_debug": _m_dbg,
    "<alloc::boxed::Box<T, A> as core::clone::Clone>::clone": _ident,
    "<alloc::vec::Vec<T, A> as core::clone::Clone>::clone": _ident,
    "<alloc::string::String as core::clone::Clone>::clone": _ident,
    "<[T] as core::convert::AsRef<[T]>>::as_ref": _ident,
    "<alloc::string::String as core::convert::AsRef<str>>::as_ref": _ident,
    "<alloc::vec::Vec<T, A> as core::convert::AsRef<alloc::vec::Vec<T, A>>>::as_ref": _ident,
    "core::array::<impl core::convert::AsRef<[T]> for [T; N]>::as_ref": _ident,
    "alloc::string::String::as_str": _ident,
    "alloc::string::String::as_bytes": _ident,
    "alloc::vec::Vec::<T, A>::as_slice": _ident,
    "alloc::slice::<impl [T]>::to_vec": _ident,
    "alloc::boxed::Box::<T>::new": _m_box_new,
    # UTF-8 validation of a byte string: one function whether the result is borrowed or owned
    "alloc::string::String::from_utf8": (lambda ev, a, t, d: ("call", "core::str::converts::from_utf8", tuple(a))),
    "alloc::boxed::box_assume_init_into_vec_unsafe": _m_vec_macro,
    "alloc::slice::<impl [T]>::into_vec": _m_vec_macro,
    "core::str::traits::<impl core::cmp::PartialEq for str>::eq": _m_eq,
    "<alloc::string::String as core::cmp::PartialEq<&str>>::eq": _m_eq,
    "core::cmp::impls::<impl core::cmp::PartialEq<&B> for &A>::eq": _m_eq,
    "core::cmp::impls::<impl core::cmp::PartialEq<&B> for &A>::ne": _m_ne,
    "core::slice::cmp::<impl core::cmp::PartialEq<[U]> for [T]>::eq": _m_eq,
    "core::array::equality::<impl core::cmp::PartialEq<[U; N]> for [T]>::eq": _m_eq,
    "core::array::equality::<impl core::cmp::PartialEq<[U; N]> for [T; N]>::eq": _m_eq,
    "<core::option::Option<T> as core::cmp::PartialEq>::eq": _m_eq,
    "core::mem::size_of": _m_size_of,
    "core::num::<impl i32>::unsigned_abs": _m_unsigned_abs,
    "core::num::<impl i16>::abs": _m_i_abs,
    "std::f64::<impl f64>::powf": _m_powf,
    "core::slice::<impl [T]>::iter": _m_iter,
    "core::slice::<impl [T]>::get": _m_slice_get,
    "core::slice::<impl [T]>::chunks_exact": _m_chunks,
    "core::iter::traits::iterator::Iterator::copied": _ident,
    "core::iter::traits::iterator::Iterator::cloned": _ident,
    "core::iter::traits::iterator::Iterator::map": _m_imap,
    "core::iter::traits::iterator::Iterator::filter": _m_ifilter,
    "core::iter::traits::iterator::Iterator::filter_map": _m_ifilter_map,
    "core::iter::traits::iterator::Iterator::collect": _m_collect,
    "<I as core::iter::traits::collect::IntoIterator>::into_iter": _m_into_iter,
    "core::ops::range::RangeInclusive::<Idx>::contains": _m_contains,
    "core::ops::range::RangeInclusive::<Idx>::new": _m_rangeinc_new,
}
for _n in ("take_while", "skip_while", "skip", "take", "step_by", "map_while", "inspect", "scan", "flat_map", "chain", "zip"):
    DEFAULT_MODELS["core::iter::traits::iterator::Iterator::" + _n] = _m_iop(_n)
DEFAULT_MODELS["core::iter::traits::iterator::Iterator::rev"] = _m_iop("rev")
for _ty in INT_TYS:
    DEFAULT_MODELS["core::num::<impl %s>::checked_sub" % _ty] = _m_checked("Sub")
    if ty_range(_ty)[0] < 0:
        DEFAULT_MODELS["core::num::<impl %s>::is_negative" % _ty] = _m_is_negative
        DEFAULT_MODELS["core::num::<impl %s>::is_positive" % _ty] = _m_is_positive
for _ty in ("u16", "u32", "i32", "u64", "i16"):
    DEFAULT_MODELS["core::num::<impl %s>::from_be_bytes" % _ty] = (lambda ty: (lambda ev, a, t, d: ("be", a[0], ty)))(_ty)


import re as _re
_NUM_FROM = _re.compile(r"^core::convert::num::<impl core::convert::From<(\w+)> for (\w+)>::from$")
NUM_TYS = set(INT_TYS) | {"f32", "f64"}


def _num_conv(name, t):
    """(from, to) when the callee is a lossless numeric conversion (`T::from(x)`, `x.into()` between primitive numbers)"""
    m = _NUM_FROM.match(name)
    if m and m.group(1) in NUM_TYS | {"bool"} and m.group(2) in NUM_TYS:
        return m.group(1), m.group(2)
    if t and name in ("<T as core::convert::Into<U>>::into", "core::convert::Into::into"):
        tys = [x["d"]["s"] for x in t.get("targs", [])]
        if len(tys) == 2 and tys[0] in NUM_TYS and tys[1] in NUM_TYS:
            return tys[0], tys[1]
    return None


_STRS = ("str", "&str", "alloc::string::String", "&alloc::string::String", "&&str")
_STR_CONV = {"alloc::str::<impl alloc::borrow::ToOwned for str>::to_owned", "<alloc::string::String as core::convert::From<&str>>::from",
             "<alloc::string::String as core::convert::From<&alloc::string::String>>::from", "alloc::string::String::into_boxed_str",
             "<alloc::string::String as core::convert::From<alloc::boxed::Box<str>>>::from", "alloc::str::<impl str>::into_string",
             "<alloc::string::String as core::borrow::Borrow<str>>::borrow", "<alloc::string::String as core::convert::AsRef<str>>::as_ref"}


def _str_conv(name, t):
    """the callee converts between string representations without changing the text"""
    if name in _STR_CONV:
        return True
    tys = [x["d"]["s"] for x in (t or {}).get("targs", [])]
    if name in ("<T as alloc::string::ToString>::to_string", "alloc::string::ToString::to_string", "alloc::borrow::ToOwned::to_owned", "<T as alloc::borrow::ToOwned>::to_owned"):
        return len(tys) >= 1 and tys[0] in _STRS
    if name in ("<T as core::convert::Into<U>>::into", "core::convert::Into::into", "<T as core::convert::From<T>>::from"):
        return len(tys) >= 1 and all(x in _STRS for x in tys)
    return False


def is_uom_new(name):
    return name.startswith("uom::si::") and name.endswith(">::new")


# ---------------------------------------------------------------- rebuilding / substitution
def vfld(base, variant, name):
    if base[0] == "updv":
        if base[2] == variant and base[3] == name:
            return base[4]
        return vfld(base[1], variant, name)
    if base[0] == "adt":
        if base[2] == variant:
            for n, v in base[3]:
                if n == name:
                    return v
        return ("unreachable",)
    if base[0] in ("cases", "ite"):
        return map_leaves(base, lambda x: vfld(x, variant, name))
    return ("vfld", base, variant, name)


def rebuild(t, sub, known=None):
    """re-normalise t bottom-up after substituting sub (dict term->term); `known` maps a scrutinee term to the
    rangeset it is known to lie in (case trees over it are cut down to the arms that remain possible)"""
    memo = {"heads": {k[0] for k in sub if isinstance(k, tuple) and k}, "plain": any(not (isinstance(k, tuple) and k) for k in sub)}
    return _rebuild(t, sub, known, memo)


def _rebuild(t, sub, known, memo):
    # values share subterms (the same object reached along many paths): each distinct object is rebuilt once
    if not isinstance(t, tuple) or not t:
        return sub[t] if memo["plain"] and t in sub else t
    hit = memo.get(id(t))
    if hit is not None and hit[0] is t:
        return hit[1]
    out = _rebuild1(t, sub, known, memo)
    memo[id(t)] = (t, out)
    return out


def _rebuild1(t, sub, known, memo):
    k = t[0]
    if k in memo["heads"] and t in sub:
        return sub[t]
    if k in ("c", "p", "fnptr", "const", "unreachable", "panic", "uninit"):
        return t
    _tick()
    r = lambda x: _rebuild(x, sub, known, memo)
    if k == "vfld":
        return vfld(r(t[1]), t[2], t[3])
    if k == "cases" and known and t[1] in known:
        kr = known[t[1]]
        arms = [(rs_inter(rs, kr), x) for rs, x in t[3]]
        arms = [(rs, r(x)) for rs, x in arms if rs]
        if len(arms) == 1:
            return arms[0][1]
    if k == "fld":
        return fld(r(t[1]), t[2])
    if k == "bin":
        return binop(t[1], r(t[2]), r(t[3]), t[4])
    if k == "un":
        return unop(t[1], r(t[2]), t[3])
    if k == "cast":
        return cast(r(t[1]), t[2], t[3])
    if k == "in":
        return mk_in(r(t[1]), t[2], t[3])
    if k == "not":
        return mk_not(r(t[1]))
    if k == "ite":
        return ite(r(t[1]), r(t[2]), r(t[3]))
    if k == "cases":
        s = r(t[1])
        if s[0] in ("cases", "ite"):
            # scrutinee became a case tree itself: distribute
            return map_leaves(s, lambda leaf: mk_cases(leaf, t[2], tuple((rs, r(x)) for rs, x in t[3])))
        return mk_cases(s, t[2], tuple((rs, r(x)) for rs, x in t[3]))
    if k == "adt":
        return ("adt", t[1], t[2], tuple((n, r(v)) for n, v in t[3]))
    if k == "tuple":
        return ("tuple", tuple(r(x) for x in t[1]))
    if k == "call":
        return ("call", t[1], tuple(r(x) for x in t[2]))
    if k == "uom":
        return ("uom", t[1], r(t[2]))
    return tuple(r(x) if isinstance(x, tuple) else x for x in t)


def atoms(t, acc=None):
    """set of input atoms (params and field paths rooted at params) a term depends on"""
    if acc is None:
        acc = set()
    if not isinstance(t, tuple) or not t:
        return acc
    if t[0] == "p":
        acc.add(t)
        return acc
    if t[0] == "fld":
        base = t
        while base[0] == "fld":
            base = base[1]
        if base[0] == "p":
            acc.add(t)
            return acc
    for x in (t[1:] if isinstance(t[0], str) else t):
        if isinstance(x, tuple):
            atoms(x, acc)
    return acc


# ---------------------------------------------------------------- bit-provenance domain
def bits_of(t, width_hint=None):
    """per-bit provenance of an integer/bool term: list (LSB first) of 0 | 1 | (atom, k) meaning
    'bit k of atom'; None when the term is outside the mask/shift fragment."""
    k = t[0]
    if k == "c" and isinstance(t[1], int) and t[2] in INT_TYS:
        n = INT_TYS[t[2]][1]
        v = t[1] & ((1 << n) - 1)
        return [(v >> i) & 1 for i in range(n)]
    if k in ("fld", "p"):
        if width_hint is None:
            return None
        return [(t, i) for i in range(width_hint)]
    if k == "cast":
        frm, to = t[2], t[3]
        if frm in INT_TYS and to in INT_TYS:
            b = bits_of(t[1], INT_TYS[frm][1])
            if b is None:
                return None
            n = INT_TYS[to][1]
            if len(b) >= n:
                return b[:n]
            if INT_TYS[frm][0]:
                return b + [b[-1]] * (n - len(b))    # sign extension
            return b + [0] * (n - len(b))
        return None
    if k == "bin" and t[4] in INT_TYS and t[1] not in ("Add", "Mul"):
        n = INT_TYS[t[4]][1]
        a = bits_of(t[2], n)
        b = bits_of(t[3], INT_TYS[t[3][2]][1] if t[3][0] == "c" and t[3][2] in INT_TYS else n)
        op = t[1]
        if op in ("Shl", "Shr") and a is not None and t[3][0] == "c":
            s = t[3][1]
            if op == "Shr":
                fill = a[-1] if INT_TYS[t[4]][0] else 0
                return (a[s:] + [fill] * s)[:n]
            return ([0] * s + a)[:n]
        if a is None or b is None:
            return None
        b = (b + [0] * n)[:n]
        if op == "BitAnd":
            out = []
            for x, y in zip(a, b):
                if x == 0 or y == 0:
                    out.append(0)
                elif x == 1:
                    out.append(y)
                elif y == 1:
                    out.append(x)
                elif x == y:
                    out.append(x)
                else:
                    return None
            return out
        if op == "BitOr":
            out = []
            for x, y in zip(a, b):
                if x == 1 or y == 1:
                    out.append(1)
                elif x == 0:
                    out.append(y)
                elif y == 0:
                    out.append(x)
                elif x == y:
                    out.append(x)
                else:
                    return None
            return out
        return None
    if k == "be" and t[2] in INT_TYS and isinstance(t[1], tuple) and t[1] and t[1][0] == "array":
        # big-endian assembly of explicit bytes
        out = []
        for byte in reversed(t[1][1]):
            b = bits_of(byte, 8)
            if b is None or len(b) != 8:
                return None
            out += b
        return out if len(out) == INT_TYS[t[2]][1] else None
    if k == "idx" and is_c(t[2]) and isinstance(t[1], tuple) and t[1] and t[1][0] == "call" and t[1][1].endswith("::to_be_bytes") and "<impl " in t[1][1]:
        ty = t[1][1].split("<impl ")[1].split(">")[0]
        if ty in INT_TYS and len(t[1][2]) == 1:
            n = INT_TYS[ty][1]
            b = bits_of(t[1][2][0], n)
            i = t[2][1]
            if b is not None and 0 <= i < n // 8:
                hi = n - 8 * i
                return b[hi - 8:hi]
        return None
    if k == "bin" and t[4] in INT_TYS and t[1] in ("Add", "Mul"):
        n = INT_TYS[t[4]][1]
        if t[1] == "Mul":
            for x, y in ((t[2], t[3]), (t[3], t[2])):
                if is_c(y) and isinstance(y[1], int) and y[1] > 0 and (y[1] & (y[1] - 1)) == 0:
                    a = bits_of(x, n)
                    if a is not None:
                        sh = y[1].bit_length() - 1
                        if all(z == 0 for z in a[n - sh:]):      # no bit is shifted out: the product cannot overflow
                            return ([0] * sh + a)[:n]
            return None
        a, b = bits_of(t[2], n), bits_of(t[3], n)
        if a is None or b is None:
            return None
        b = (b + [0] * n)[:n]
        if all(x == 0 or y == 0 for x, y in zip(a, b)):          # disjoint bit sets: the sum has no carries
            return [x if y == 0 else y for x, y in zip(a, b)]
        return None
    if k == "in":
        # membership of a bit-vector value in a range set: decidable when the vector has one free bit
        b = bits_of(t[1], INT_TYS[t[2]][1])
        if b is None:
            return None
        free = [(i, x) for i, x in enumerate(b) if x not in (0, 1)]
        base = sum((1 << i) for i, x in enumerate(b) if x == 1)
        if len(free) == 1:
            i, x = free[0]
            v0 = any(lo <= base <= hi for lo, hi in t[3])
            v1 = any(lo <= base + (1 << i) <= hi for lo, hi in t[3])
            if v0 == v1:
                return [1 if v0 else 0]
            return [x] if v1 else [("not", x)]
        if not free:
            return [1 if any(lo <= base <= hi for lo, hi in t[3]) else 0]
        return None
    return None


def _mentions(t, sub):
    if t == sub:
        return True
    if isinstance(t, tuple):
        return any(_mentions(x, sub) for x in t if isinstance(x, tuple))
    return False


def comp_of(t):
    """('comp', src, g) of an iterator-chain closed form ('seq', src, ops, body): g is Some(body) when every filter holds
    and every filter_map yields Some, None otherwise. Chains with other adaptors have no comprehension form (None)."""
    if not (isinstance(t, tuple) and t):
        return None
    if t[0] == "comp":
        return t
    if t[0] != "seq":
        return None
    g = some(t[3])
    for kind, _body, arg in reversed(t[2]):
        if kind == "filter":
            g = ite(arg, g, NONE)
        elif kind == "filtermap":
            g = opt_match(arg, lambda v, g=g: g, lambda: NONE)
        else:
            return None
    return ("comp", t[1], g)


def sem_eq(a, b):
    """equality of two terms up to the value-preserving rewrites of norm_arith and, for integer expressions in the
    mask/shift fragment, equal per-bit provenance; recursive through equal case structure and aggregates"""
    if a == b:
        return True
    if not (isinstance(a, tuple) and isinstance(b, tuple) and a and b):
        return False
    if a[0] in ("seq", "comp") and b[0] in ("seq", "comp"):
        ca, cb = comp_of(a), comp_of(b)
        if ca is not None and cb is not None:
            return sem_eq(ca[1], cb[1]) and sem_eq(ca[2], cb[2])
    na, nb = norm_arith(a), norm_arith(b)
    if na == nb:
        return True
    a, b = na, nb
    if a[0] == b[0] == "cases" and a[1] == b[1] and a[2] == b[2] and len(a[3]) == len(b[3]) and all(x[0] == y[0] for x, y in zip(a[3], b[3])):
        return all(sem_eq(x[1], y[1]) for x, y in zip(a[3], b[3]))
    if a[0] == b[0] == "ite" and a[1] == b[1]:
        return sem_eq(a[2], b[2]) and sem_eq(a[3], b[3])
    if a[0] == b[0] == "adt" and a[1] == b[1] and a[2] == b[2] and len(a[3]) == len(b[3]):
        return all(x[0] == y[0] and sem_eq(x[1], y[1]) for x, y in zip(a[3], b[3]))
    if a[0] == b[0] == "cast" and a[2:] == b[2:]:
        return sem_eq(a[1], b[1])
    if a[0] == b[0] == "uom" and a[1] == b[1]:
        return sem_eq(a[2], b[2])
    if a[0] == b[0] == "tuple" and len(a[1]) == len(b[1]):
        return all(sem_eq(x, y) for x, y in zip(a[1], b[1]))
    try:
        ba, bb = bits_of(a), bits_of(b)
    except Exception:
        return False
    return ba is not None and ba == bb


def prune(t, known=None, sub=None):
    """simplify a term under its own path conditions: inside the arm of a case tree, every nested case distinction on the
    same scrutinee (anywhere in the arm, including inside values) is cut down to what remains possible"""
    known = known or {}
    sub = sub or {}
    if not isinstance(t, tuple) or not t:
        return t
    k = t[0]
    if k == "cases":
        s = prune(t[1], known, sub)
        arms = []
        for rs, x in t[3]:
            r2 = rs_inter(rs, known[s]) if s in known else rs
            if not r2:
                continue
            k2 = dict(known)
            k2[s] = r2
            arms.append((r2, prune(x, k2, sub)))
        arms = [(rs, x) for rs, x in arms if x != ("unreachable",)] or arms
        if len(arms) == 1:
            return arms[0][1]
        if s in known:
            # keep the partition total over the scrutinee's type for canonical form
            covered = rs_norm(tuple(r for rs, _ in arms for r in rs))
            rest = rs_compl(covered, t[2])
            if rest:
                arms[-1] = (rs_norm(arms[-1][0] + rest), arms[-1][1])
        return mk_cases(s, t[2], tuple(arms))
    if k == "ite":
        c = prune(t[1], known, sub)
        if c in sub:
            return prune(t[2] if sub[c] else t[3], known, sub)
        sa, sb = dict(sub), dict(sub)
        sa[c] = True
        sb[c] = False
        return ite(c, prune(t[2], known, sa), prune(t[3], known, sb))
    if k == "vfld":
        return vfld(prune(t[1], known, sub), t[2], t[3])
    if k == "fld":
        return fld(prune(t[1], known, sub), t[2])
    if k in ("c", "p"):
        return t
    return tuple(prune(x, known, sub) if isinstance(x, tuple) else x for x in t)
