"""E3 — C20: exhaustive type checking of the feature matrix with the repository's own
stable toolchain (`cargo check`); the verdict is the compiler's, no code is run."""
import itertools, json, os, re, subprocess, time, tomllib
from concurrent.futures import ThreadPoolExecutor
from .extract import REPO, CACHE, Lock

CRATES = ["nexrad-model", "nexrad-decode", "nexrad-data", "nexrad"]


def manifest(crate):
    with open(os.path.join(REPO, crate, "Cargo.toml"), "rb") as fh:
        return tomllib.load(fh)


def feature_space(crate):
    """(toggles, implies): named features (minus `default`) + implicit optional-dependency features"""
    m = manifest(crate)
    feats = dict(m.get("features", {}))
    explicit_dep_refs = set()
    for f, subs in feats.items():
        for s in subs:
            if s.startswith("dep:"):
                explicit_dep_refs.add(s[4:])
    opt = [d for d, spec in m.get("dependencies", {}).items() if isinstance(spec, dict) and spec.get("optional")]
    implies = {}
    for f, subs in feats.items():
        implies[f] = [s[4:] if s.startswith("dep:") else s.split("/")[0].rstrip("?") for s in subs]
    for d in opt:
        if d not in explicit_dep_refs:
            implies.setdefault(d, [])
    toggles = sorted(k for k in implies if k != "default")
    return toggles, implies, m


def close(sel, implies):
    out = set()
    st = list(sel)
    while st:
        f = st.pop()
        if f in out:
            continue
        out.add(f)
        st.extend(implies.get(f, []))
    return frozenset(out)


def mentioned_features(crate):
    """feature names occurring in cfg predicates of the crate's sources (for the quick-tier reduction)"""
    names = set()
    for d, _, fs in os.walk(os.path.join(REPO, crate)):
        if "/target" in d:
            continue
        for f in fs:
            if f.endswith(".rs"):
                with open(os.path.join(d, f), errors="replace") as fh:
                    names.update(re.findall(r'feature\s*=\s*"([^"]+)"', fh.read()))
    return names


def examples_for(m, resolved):
    out = []
    for ex in m.get("example", []):
        req = ex.get("required-features", [])
        if all(r in resolved for r in req):
            out.append(ex["name"])
    return out


def cargo_check(crate, sel, target_dir, examples=()):
    locked = ["--locked"] if os.path.exists(os.path.join(REPO, "Cargo.lock")) else []
    args = ["cargo", "check", "--offline"] + locked + ["-p", crate, "--no-default-features", "--lib", "--message-format=json"]
    for e in examples:
        args += ["--example", e]
    if sel:
        args += ["--features", ",".join(sorted(sel))]
    env = dict(os.environ, CARGO_NET_OFFLINE="true", CARGO_TARGET_DIR=target_dir)
    p = subprocess.run(args, cwd=REPO, env=env, capture_output=True, text=True)
    errs, cfg_warn = [], []
    for line in p.stdout.splitlines():
        if not line.startswith("{"):
            continue
        try:
            j = json.loads(line)
        except ValueError:
            continue
        if j.get("reason") != "compiler-message":
            continue
        msg = j["message"]
        code = (msg.get("code") or {}).get("code")
        sp = msg.get("spans") or [{}]
        prim = next((s for s in sp if s.get("is_primary")), sp[0] if sp else {})
        where = "%s:%s" % (prim.get("file_name"), prim.get("line_start"))
        if msg.get("level") == "error":
            errs.append({"code": code, "message": msg.get("message"), "where": where})
        elif code == "unexpected_cfgs":
            cfg_warn.append({"code": code, "message": msg.get("message"), "where": where})
    ok = p.returncode == 0
    if not ok and not errs:
        errs.append({"code": None, "message": p.stderr[-600:], "where": "?"})
    return ok, errs, cfg_warn


def plan(tier):
    jobs = []   # (crate, minimal selection, resolved, examples)
    stats = {}
    for crate in CRATES:
        toggles, implies, m = feature_space(crate)
        mentioned = mentioned_features(crate)
        by_resolved = {}
        n_subsets = 0
        for r in range(len(toggles) + 1):
            for sel in itertools.combinations(toggles, r):
                n_subsets += 1
                res = close(sel, implies)
                cur = by_resolved.get(res)
                if cur is None or len(sel) < len(cur):
                    by_resolved[res] = sel
        configs = sorted(by_resolved.items(), key=lambda kv: (len(kv[0]), sorted(kv[0])))
        if tier == "quick" and len(configs) > 16:
            # one minimal and one maximal representative per cfg-equivalence class: two resolved
            # sets are equivalent when they agree on every feature the sources mention in a cfg
            classes = {}
            for res, sel in configs:
                k = frozenset(res & mentioned)
                classes.setdefault(k, []).append((res, sel))
            chosen = {}
            for k, members in classes.items():
                members.sort(key=lambda x: len(x[0]))
                for res, sel in (members[0], members[-1]):
                    chosen[res] = sel
            # plus every singleton
            for t in toggles:
                res = close([t], implies)
                chosen[res] = by_resolved[res]
            sel_configs = sorted(chosen.items(), key=lambda kv: (len(kv[0]), sorted(kv[0])))
            stats[crate] = {"toggles": toggles, "subsets": n_subsets, "distinct_resolved": len(configs),
                            "cfg_mentioned": sorted(mentioned & set(implies)), "classes": len(classes), "checked": len(sel_configs)}
        else:
            sel_configs = configs
            stats[crate] = {"toggles": toggles, "subsets": n_subsets, "distinct_resolved": len(configs), "checked": len(configs)}
        for res, sel in sel_configs:
            jobs.append((crate, tuple(sel), res, tuple(examples_for(m, res))))
    return jobs, stats


def run(chk, tier):
    jobs, stats = plan(tier)
    nworkers = 4 if tier == "thorough" else 3
    results = []
    t0 = time.time()

    def work(ix):
        target = os.path.join(CACHE, "tgt-stable-%d" % ix)
        out = []
        with Lock("feat-%d" % ix):
            for job in jobs[ix::nworkers]:
                crate, sel, res, exs = job
                # the library alone first: checking an example pulls in dev-dependencies, whose features unify with the
                # selection and can mask a configuration in which the library itself does not build
                ok, errs, cfgw = cargo_check(crate, sel, target, ())
                if ok and exs:
                    ok2, errs2, cfgw2 = cargo_check(crate, sel, target, exs)
                    ok, errs, cfgw = ok2, errs2, cfgw + [c for c in cfgw2 if c not in cfgw]
                out.append((job, ok, errs, cfgw))
        return out

    with ThreadPoolExecutor(nworkers) as ex:
        for part in ex.map(work, range(nworkers)):
            results.extend(part)
    nontrivial = 0
    samples = []
    for (crate, sel, res, exs), ok, errs, cfgw in results:
        name = "%s[%s]" % (crate, ",".join(sorted(sel)) or "<none>")
        if res:
            nontrivial += 1
        detail = "" if ok else "; ".join("%s %s at %s" % (e["code"], (e["message"] or "")[:160], e["where"]) for e in errs[:3])
        chk.ob("E3-build", name, ok, detail, where=errs[0]["where"] if errs else None,
               key="build-error")
        if cfgw:
            chk.ob("E3-check-cfg", name, False, "unexpected cfg: " + cfgw[0]["message"][:200], where=cfgw[0]["where"], key="unexpected-cfg")
        if len(samples) < 12 or not ok:
            samples.append({"crate": crate, "features": sorted(sel), "resolved": sorted(res), "examples": list(exs), "ok": ok})
    total = sum(s["distinct_resolved"] for s in stats.values())
    chk.notes.update({
        "evaluations": len(results),
        "distinct_nontrivial": nontrivial,
        "rule": "configurations = distinct resolved feature sets of each crate's feature powerset (named features + implicit "
                "optional-dependency features), each type-checked with `cargo check --no-default-features --features <set> --lib` "
                "(+ every example whose required-features hold); non-trivial = resolved set non-empty; quick = min and max "
                "representative per cfg-equivalence class + all singletons, thorough = every distinct resolved set",
        "exhaustive": tier == "thorough",
        "per_crate": stats,
        "distinct_resolved_total": total,
        "check_wall_s": round(time.time() - t0, 1),
    })
    chk.notes["samples_configs"] = samples
    return results
