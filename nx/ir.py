"""IR over the nxfacts JSON: program, functions, CFG utilities."""
import glob, json, os


class Fn:
    def __init__(self, j, crate):
        self.j = j
        self.crate = crate
        self.path = j["path"]
        self.kind = j["kind"].split(" ")[0]       # "Const { is_type_const: false }" -> "Const"
        self.blocks = j["blocks"]
        self.locals = j["locals"]
        self.arg_count = j["arg_count"]
        self.parent = j.get("parent")
        self.vis = j.get("vis")
        self.derived = j.get("derived", False)
        self.loc = j.get("loc", {})
        self.is_coroutine = j.get("coroutine", False)
        self.promoted = j.get("promoted", [])
        self._succ = None
        self._pred = None
        self._dom = None

    # ---- naming
    def short(self):
        return self.path

    def file(self):
        return self.loc.get("file", "?")

    def where(self, loc=None):
        loc = loc or self.loc
        return "%s:%s" % (loc.get("file", "?"), loc.get("line", "?"))

    def local_name(self, i):
        return self.locals[i].get("name")

    def local_ty(self, i):
        return self.locals[i]["ty"]["s"]

    def locals_named(self, name):
        return [i for i, l in enumerate(self.locals) if l.get("name") == name]

    # ---- CFG (normal edges only unless cleanup=True)
    def term(self, b):
        return self.blocks[b]["term"]

    def succs(self, b, cleanup=False):
        t = self.blocks[b]["term"]
        if t is None:
            return []
        k = t["t"]
        out = []
        if k == "goto":
            out = [t["target"]]
        elif k == "switch":
            out = [a[1] for a in t["arms"]] + [t["otherwise"]]
        elif k in ("drop", "assert"):
            out = [t["target"]]
        elif k == "call":
            out = [t["target"]] if t.get("target") is not None else []
        elif k == "yield":
            out = [t["target"]]
        if cleanup and t.get("unwind") is not None:
            out = out + [t["unwind"]]
        # dedupe preserving order
        seen = []
        for x in out:
            if x not in seen:
                seen.append(x)
        return seen

    def succ_map(self):
        if self._succ is None:
            self._succ = [self.succs(b) for b in range(len(self.blocks))]
        return self._succ

    def pred_map(self):
        if self._pred is None:
            pm = [[] for _ in self.blocks]
            for b, ss in enumerate(self.succ_map()):
                for s in ss:
                    pm[s].append(b)
            self._pred = pm
        return self._pred

    def reachable(self, start=0):
        seen = set()
        st = [start]
        sm = self.succ_map()
        while st:
            b = st.pop()
            if b in seen:
                continue
            seen.add(b)
            st.extend(sm[b])
        return seen

    def rpo(self):
        sm = self.succ_map()
        seen = set()
        order = []
        # iterative DFS postorder
        stack = [(0, iter(sm[0]))]
        seen.add(0)
        while stack:
            b, it = stack[-1]
            adv = False
            for s in it:
                if s not in seen:
                    seen.add(s)
                    stack.append((s, iter(sm[s])))
                    adv = True
                    break
            if not adv:
                order.append(b)
                stack.pop()
        order.reverse()
        return order

    def dominators(self):
        """dom[b] = set of blocks dominating b (over normal edges from bb0)."""
        if self._dom is not None:
            return self._dom
        rpo = self.rpo()
        idx = {b: i for i, b in enumerate(rpo)}
        pm = self.pred_map()
        idom = {0: 0}
        changed = True

        def intersect(a, b):
            while a != b:
                while idx[a] > idx[b]:
                    a = idom[a]
                while idx[b] > idx[a]:
                    b = idom[b]
            return a

        while changed:
            changed = False
            for b in rpo[1:]:
                ps = [p for p in pm[b] if p in idom]
                if not ps:
                    continue
                new = ps[0]
                for p in ps[1:]:
                    new = intersect(new, p)
                if idom.get(b) != new:
                    idom[b] = new
                    changed = True
        dom = {}
        for b in rpo:
            s = {b}
            x = b
            while x != 0 and x in idom:
                x = idom[x]
                s.add(x)
            s.add(0)
            dom[b] = s
        self._dom = dom
        self._idom = idom
        return dom

    def dominates(self, a, b):
        d = self.dominators()
        return b in d and a in d[b]

    def ipdom(self):
        """immediate post-dominator per block over normal edges (virtual exit = -1)"""
        if getattr(self, "_ipdom", None) is not None:
            return self._ipdom
        n = len(self.blocks)
        sm = self.succ_map()
        # blocks that never return (unreachable, diverging panics) do not count as paths to the exit: the join of a
        # branch is where its *returning* arms meet
        def dead_end(b):
            t = self.blocks[b]["term"]
            return t is None or t["t"] in ("unreachable", "resume", "terminate") or (t["t"] == "call" and t.get("target") is None)
        succ = {}
        for b in range(n):
            if dead_end(b):
                succ[b] = []
            else:
                ss = [s for s in sm[b] if not dead_end(s)]
                succ[b] = ss if ss else ([-1] if not sm[b] else [])
        pred = {b: [] for b in list(range(n)) + [-1]}
        for b, ss in succ.items():
            for s in ss:
                pred[s].append(b)
        # reverse post-order on the reverse graph from the exit
        order, seen = [], {-1}
        stack = [(-1, iter(pred[-1]))]
        while stack:
            b, it = stack[-1]
            adv = False
            for s in it:
                if s not in seen:
                    seen.add(s)
                    stack.append((s, iter(pred[s])))
                    adv = True
                    break
            if not adv:
                order.append(b)
                stack.pop()
        order.reverse()
        idx = {b: i for i, b in enumerate(order)}
        ip = {-1: -1}

        def inter(a, b):
            while a != b:
                while idx[a] > idx[b]:
                    a = ip[a]
                while idx[b] > idx[a]:
                    b = ip[b]
            return a
        changed = True
        while changed:
            changed = False
            for b in order[1:]:
                ss = [s for s in succ[b] if s in ip]
                if not ss:
                    continue
                new = ss[0]
                for s in ss[1:]:
                    new = inter(new, s)
                if ip.get(b) != new:
                    ip[b] = new
                    changed = True
        self._ipdom = ip
        return ip

    def live_in(self):
        """live-in locals per block (backward may-liveness over normal edges; a place with projections uses its base)"""
        if getattr(self, "_live", None) is not None:
            return self._live
        n = len(self.blocks)
        use = [set() for _ in range(n)]
        dfn = [set() for _ in range(n)]

        def op_uses(o, acc):
            if isinstance(o, dict):
                if o.get("k") in ("copy", "move"):
                    pl_uses(o["pl"], acc)

        def pl_uses(pl, acc):
            acc.add(pl["l"])
            for e in pl["p"]:
                if isinstance(e, dict) and "idx" in e:
                    acc.add(e["idx"])

        for b, blk in enumerate(self.blocks):
            u, d = use[b], dfn[b]

            def rd(pl):
                tmp = set()
                pl_uses(pl, tmp)
                for l in tmp:
                    if l not in d:
                        u.add(l)

            def rdo(o):
                if isinstance(o, dict) and o.get("k") in ("copy", "move"):
                    rd(o["pl"])
            for s in blk["stmts"]:
                if s["s"] == "assign":
                    for k in ("a", "b"):
                        if k in s:
                            rdo(s[k])
                    if "pl" in s:
                        rd(s["pl"])
                    for o in s.get("ops", []):
                        rdo(o)
                    dst = s["dst"]
                    if dst["p"]:
                        rd(dst)
                    else:
                        d.add(dst["l"])
                elif s["s"] == "setdiscr":
                    rd(s["dst"])
            t = blk["term"]
            if t:
                for k in ("discr", "cond", "func", "value"):
                    if k in t:
                        rdo(t[k])
                for a in t.get("args", []):
                    rdo(a)
                if t["t"] == "drop":
                    rd(t["pl"])
                if t["t"] == "assert":
                    for k in ("a", "b", "len", "index"):
                        if k in t["msg"]:
                            rdo(t["msg"][k])
                if t["t"] == "call":
                    if t["dest"]["p"]:
                        rd(t["dest"])
                    else:
                        d.add(t["dest"]["l"])
                if t["t"] == "return":
                    if 0 not in d:
                        u.add(0)
        live = [set() for _ in range(n)]
        sm = self.succ_map()
        changed = True
        while changed:
            changed = False
            for b in range(n - 1, -1, -1):
                out = set()
                for s in sm[b]:
                    out |= live[s]
                new = use[b] | (out - dfn[b])
                if new != live[b]:
                    live[b] = new
                    changed = True
        self._live = live
        return live

    def back_edges(self):
        dom = self.dominators()
        out = []
        for b in dom:
            for s in self.succ_map()[b]:
                if s in dom[b]:
                    out.append((b, s))
        return out

    def loops(self):
        """natural loops: dict header -> set(body blocks)"""
        pm = self.pred_map()
        loops = {}
        for (tail, head) in self.back_edges():
            body = loops.setdefault(head, {head})
            st = [tail]
            while st:
                x = st.pop()
                if x in body:
                    continue
                body.add(x)
                st.extend(pm[x])
        return loops

    # ---- iteration helpers
    def calls(self):
        """yield (block index, terminator) for every call terminator on non-cleanup blocks"""
        for b, blk in enumerate(self.blocks):
            t = blk["term"]
            if t and t["t"] == "call" and not blk["cleanup"]:
                yield b, t

    def stmts(self):
        for b, blk in enumerate(self.blocks):
            if blk["cleanup"]:
                continue
            for i, s in enumerate(blk["stmts"]):
                yield b, i, s


# ---- MIR-level inlining of helper functions
def _remap(x, L, B, PR):
    """deep copy of a piece of body JSON with locals shifted by L, blocks by B and promoted indices by PR"""
    if isinstance(x, list):
        return [_remap(y, L, B, PR) for y in x]
    if isinstance(x, dict):
        if len(x) == 2 and "l" in x and "p" in x:
            return {"l": x["l"] + L, "p": [_remap(e, L, B, PR) for e in x["p"]]}
        out = {}
        for k, v in x.items():
            if k in ("target", "otherwise", "unwind", "imaginary", "drop") and isinstance(v, int) and not isinstance(v, bool):
                out[k] = v + B
            elif k == "arms":
                out[k] = [[a, b + B] for a, b in v]
            elif k == "promoted" and isinstance(v, int) and not isinstance(v, bool):
                out[k] = v + PR
            elif k == "idx" and isinstance(v, int) and not isinstance(v, bool):
                out[k] = v + L
            else:
                out[k] = _remap(v, L, B, PR)
        return out
    return x


def inline_calls(prog, fn, should_inline, max_rounds=6):
    """A copy of `fn` in which every direct call to a workspace function accepted by should_inline(path) is replaced
    by that function's body (arguments assigned to its parameter locals, its returns assigned to the call's
    destination). Semantics-preserving; unwinding edges of the inlined call are dropped (cleanup paths are never
    analysed). Recursive helpers are left as calls."""
    blocks = [dict(b) for b in fn.blocks]
    locals_ = list(fn.locals)
    promoted = list(fn.promoted)
    stack_of = {b: () for b in range(len(blocks))}      # inline stack per block (recursion guard)
    inlined = []
    for _ in range(max_rounds):
        did = False
        for b in range(len(blocks)):
            blk = blocks[b]
            t = blk["term"]
            if not t or t["t"] != "call" or blk["cleanup"]:
                continue
            c = callee_of(t)
            g = prog.fns.get(c)
            if g is None:
                g = prog.fns.get(t.get("callee") or "")
            if g is None or g.is_coroutine or g.kind not in ("Fn", "AssocFn") or not should_inline(g.path):
                continue
            stk = stack_of.get(b, ())
            if g.path in stk or g.path == fn.path or len(t["args"]) != g.arg_count:
                continue
            L, B, PR = len(locals_), len(blocks), len(promoted)
            locals_ += g.locals
            promoted += g.promoted
            gb = _remap(g.blocks, L, B, PR)
            loc = t.get("loc")
            stmts = list(blk["stmts"])
            for i, a in enumerate(t["args"]):
                stmts.append({"s": "assign", "dst": {"l": L + 1 + i, "p": []}, "rv": "use", "a": a, "loc": loc})
            blocks[b] = dict(blk, stmts=stmts, term={"t": "goto", "target": B, "loc": loc, "inlined_call": g.path})
            for i, nb in enumerate(gb):
                tt = nb["term"]
                if tt and tt["t"] == "return" and not nb["cleanup"]:
                    if t.get("target") is None:
                        nb["term"] = {"t": "unreachable", "loc": tt.get("loc")}
                    else:
                        nb["stmts"] = list(nb["stmts"]) + [{"s": "assign", "dst": t["dest"], "rv": "use",
                                                            "a": {"k": "move", "pl": {"l": L, "p": []}}, "loc": tt.get("loc")}]
                        nb["term"] = {"t": "goto", "target": t["target"], "loc": tt.get("loc")}
                stack_of[B + i] = stk + (g.path,)
                blocks.append(nb)
            inlined.append(g.path)
            did = True
        if not did:
            break
    if not inlined:
        return fn
    j = dict(fn.j, blocks=blocks, locals=locals_, promoted=promoted, inlined=sorted(set(inlined)))
    return Fn(j, fn.crate)


def signature(f):
    """parameter and return types of a function as one string (used to recognise a renamed function)"""
    args = [f.locals[i + 1]["ty"].get("s", "?") for i in range(f.arg_count)]
    return ",".join(args) + "->" + str((f.j.get("ret") or {}).get("s", "?"))


def callee_of(t):
    """canonical callee path of a call terminator: the resolved impl method when the
    driver could resolve the trait call, else the declared callee"""
    return t.get("resolved") or t.get("callee") or "<indirect>"


class Prog:
    def __init__(self, facts_dir):
        self.fns = {}
        self.adts = {}
        self.impls = []
        self.consts = {}
        self.crates = {}
        self.closures_of = {}
        for p in sorted(glob.glob(os.path.join(facts_dir, "*.jsonl"))):
            crate = None
            with open(p) as fh:
                for line in fh:
                    j = json.loads(line)
                    f = j["fact"]
                    if f == "crate":
                        crate = j["name"]
                        self.crates[crate] = j
                    elif f == "fn":
                        fn = Fn(j, crate)
                        self.fns[fn.path] = fn
                        if fn.parent and fn.parent != fn.path:
                            self.closures_of.setdefault(fn.parent, []).append(fn.path)
                    elif f == "adt":
                        j["crate"] = crate
                        self.adts[j["path"]] = j
                    elif f == "impl":
                        j["crate"] = crate
                        self.impls.append(j)
                    elif f == "const":
                        self.consts[j["path"]] = j

    def fn(self, path):
        return self.fns.get(path)

    def inline_helpers(self, vocabulary):
        """Replace every function body by a copy in which calls to workspace functions *outside* `vocabulary`
        (helpers the rules have no name for) are inlined; the helpers themselves stay available. Returns the list of
        helper paths."""
        helpers = sorted(p for p, f in self.fns.items() if f.kind in ("Fn", "AssocFn") and not f.derived and p not in vocabulary)
        if not helpers:
            return []
        # a vocabulary function that is gone while exactly one new function of the same module has its signature: a rename.
        # The new function answers to the old name too (the rules then judge its body as they would have judged the old one).
        self.renamed = {}
        if isinstance(vocabulary, dict):
            gone = [p for p in vocabulary if p not in self.fns and p.rsplit("::", 1)[0].split("::")[0] in {q.split("::")[0] for q in helpers}]
            for old in gone:
                mod = old.rsplit("::", 1)[0]
                cands = [q for q in helpers if q.rsplit("::", 1)[0] == mod and signature(self.fns[q]) == vocabulary[old] and q not in self.renamed.values()]
                if len(cands) == 1:
                    self.renamed[old] = cands[0]
            if self.renamed:
                back = {v: k for k, v in self.renamed.items()}
                # nested bodies (closures, async blocks) of a renamed function move with it
                for new_, old_ in list(back.items()):
                    for q in list(self.fns):
                        if q.startswith(new_ + "::"):
                            back[q] = old_ + q[len(new_):]

                def resub(x):
                    if isinstance(x, list):
                        for i, y in enumerate(x):
                            if isinstance(y, str):
                                if y in back:
                                    x[i] = back[y]
                            else:
                                resub(y)
                    elif isinstance(x, dict):
                        for k, y in x.items():
                            if isinstance(y, str):
                                if k in ("callee", "resolved", "def", "fn", "parent", "adt") and y in back:
                                    x[k] = back[y]
                            else:
                                resub(y)
                for p, f in list(self.fns.items()):
                    resub(f.blocks)
                    resub(f.promoted)
                for new_, old_ in back.items():
                    f = self.fns.pop(new_)
                    f.path = old_
                    f.j = dict(f.j, path=old_, renamed_from_vocabulary=new_)
                    if f.parent in back:
                        f.parent = back[f.parent]
                    self.fns[old_] = f
                self.closures_of = {}
                for q, g in self.fns.items():
                    if g.parent and g.parent != g.path:
                        self.closures_of.setdefault(g.parent, []).append(q)
                helpers = [h for h in helpers if h not in back]
                if not helpers:
                    return []
        hs = set(helpers)
        self.raw_fns = dict(self.fns)
        for p, f in list(self.fns.items()):
            self.fns[p] = inline_calls(self, f, lambda c: c in hs)
        # a helper's closures are still called from its inlined body: they belong to every function it was inlined into
        # (transitively), or the scopes built from `closures_of` would lose them
        callers = {}
        for p, f in self.raw_fns.items():
            for b, t in f.calls():
                c = callee_of(t)
                if c in hs:
                    callers.setdefault(c, set()).add(p)
        changed = True
        while changed:
            changed = False
            for h in helpers:
                for cl in list(self.closures_of.get(h, [])):
                    for caller in callers.get(h, ()):
                        lst = self.closures_of.setdefault(caller, [])
                        if cl not in lst:
                            lst.append(cl)
                            changed = True
        return helpers

    def find_fns(self, suffix):
        return [f for p, f in self.fns.items() if p == suffix or p.endswith("::" + suffix)]

    def impls_of(self, adt_path, trait_suffix):
        return [i for i in self.impls if i["self"].get("adt") == adt_path and (i.get("trait") or "").endswith(trait_suffix)]


# ---- small helpers on operands / places
def op_local(o):
    """local index if the operand is a bare local copy/move, else None"""
    if o and o.get("k") in ("copy", "move") and not o["pl"]["p"]:
        return o["pl"]["l"]
    return None


def op_const_int(o):
    if o and o.get("k") == "const" and "int" in o:
        v = o["int"]
        return int(v) if isinstance(v, str) else v
    return None


def place_fields(pl):
    """names of the field projections of a place, outermost first"""
    return [p.get("name") for p in pl["p"] if isinstance(p, dict) and "f" in p]
