"""Chrono axioms A1–A5 as VN models (DESIGN §3 C08). Canonical forms:
   ('date', base_term|None, const)   calendar day number = base + const  (days since 0001-01-01, proleptic Gregorian)
   ('dur', unit_ms, term)             a TimeDelta of term * unit_ms milliseconds
   ('time', const_seconds, dur|None)  time of day = const + dur  (mod 24 h: A4, total)
   ('instant', date, time)            the UTC instant date*86400 s + time (A5)"""
from . import sym
from .sym import C, is_c, some, NONE, opt_match


def days_from_ce(y, m, d):
    """proleptic Gregorian day number with 0001-01-01 = 1 (the checker's own routine, not chrono's)"""
    if not (1 <= m <= 12):
        return None
    dim = [31, 29 if (y % 4 == 0 and (y % 100 != 0 or y % 400 == 0)) else 28, 31, 30, 31, 30, 31, 31, 30, 31, 30, 31]
    if not (1 <= d <= dim[m - 1]):
        return None
    y1 = y - 1
    n = y1 * 365 + y1 // 4 - y1 // 100 + y1 // 400
    n += sum(dim[:m - 1]) + d
    return n


EPOCH = days_from_ce(1970, 1, 1)


def affine(t):
    """(base term | None, constant) with t = base + constant for i64 Add/Sub with constants"""
    if is_c(t) and isinstance(t[1], int):
        return None, t[1]
    if t[0] == "cast" and len(t) == 4 and t[2] in sym.INT_TYS and t[3] in sym.INT_TYS:
        flo, fhi = sym.ty_range(t[2])
        tlo, thi = sym.ty_range(t[3])
        if tlo <= flo and fhi <= thi:
            base, k = affine(t[1])          # a value-preserving widening commutes with + and - of constants
            if k != 0 or base is not t[1]:
                return (None if base is None else sym.cast(base, t[2], t[3])), k
    if t[0] == "bin" and t[1] in ("Add", "Sub") and t[4] in sym.INT_TYS:
        # a sum/difference that was evaluated at all did not wrap (checked arithmetic panics, `checked_*` returns None)
        a, b = t[2], t[3]
        if is_c(b) and isinstance(b[1], int):
            base, k = affine(a)
            return base, k + (b[1] if t[1] == "Add" else -b[1])
        if is_c(a) and isinstance(a[1], int) and t[1] == "Add":
            base, k = affine(b)
            return base, k + a[1]
    return t, 0


def canon_base(b):
    """day-count base as the i64 widening of its innermost unsigned atom (so `x as i64`, `i32::from(x)` and
    `i64::from(x)` name the same quantity)"""
    if b is None:
        return None
    core = b
    ty = None
    while isinstance(core, tuple) and core and core[0] == "cast" and len(core) == 4 and sym._uwiden(core[2], core[3]):
        ty = core[2]
        core = core[1]
    if ty is not None and ty in ("u8", "u16", "u32"):
        return sym.cast(core, ty, "i64")
    return b


def small_unsigned(b):
    """the base is a widening of a u8/u16 quantity (so day arithmetic on it cannot leave chrono's range)"""
    core, ty = b, None
    while isinstance(core, tuple) and core and core[0] == "cast" and len(core) == 4 and sym._uwiden(core[2], core[3]):
        ty = core[2]
        core = core[1]
    return ty in ("u8", "u16")


def m_from_num_days_from_ce_opt(ev, a, t, d):
    """A1': NaiveDate::from_num_days_from_ce_opt(n) = Some(day n) whenever n is within chrono's range"""
    base, k = affine(a[0])
    if base is None:
        return some(("date", None, k)) if -90_000_000 < k < 90_000_000 else NONE
    if small_unsigned(base) and -90_000_000 < k < 90_000_000:
        return some(("date", canon_base(base), k))
    raise sym.Undecided("from_num_days_from_ce_opt of an unbounded day number")


def m_overflowing_add_signed(ev, a, t, d):
    tm, du = a
    if tm[0] == "time" and tm[2] is None:
        return ("tuple", (("time", tm[1], du), ("wrapped_seconds", tm, du)))
    raise sym.Undecided("NaiveTime::overflowing_add_signed on a non-constant time")


def m_and_time(ev, a, t, d):
    return ("ndt", a[0], a[1])


def m_and_utc(ev, a, t, d):
    if a[0][0] == "ndt":
        return ("instant", a[0][1], a[0][2])
    raise sym.Undecided("and_utc of an unknown NaiveDateTime")


MS_PER_DAY = 86_400_000


def linear(t):
    """({atom: coefficient}, constant) of an i64 expression built from + - and multiplication by constants"""
    if is_c(t) and isinstance(t[1], int):
        return {}, t[1]
    if t[0] == "bin" and len(t) == 5 and t[1] in ("Add", "Sub"):
        (la, ka), (lb, kb) = linear(t[2]), linear(t[3])
        sg = 1 if t[1] == "Add" else -1
        out = dict(la)
        for x, c in lb.items():
            out[x] = out.get(x, 0) + sg * c
        return {x: c for x, c in out.items() if c}, ka + sg * kb
    if t[0] == "bin" and len(t) == 5 and t[1] == "Mul":
        for x, y in ((t[2], t[3]), (t[3], t[2])):
            if is_c(y) and isinstance(y[1], int):
                lx, kx = linear(x)
                return {a: c * y[1] for a, c in lx.items()}, kx * y[1]
    return {t: 1}, 0


def m_from_timestamp_millis(ev, a, t, d):
    """A6: DateTime::from_timestamp_millis(86_400_000*(D + k) + (T mod 86_400_000)) is the instant day(epoch + D + k),
    time T wrapped to the day, whenever D is a small unsigned day count (always in range)"""
    lin, k = linear(a[0])
    days = [(x, c) for x, c in lin.items() if c == MS_PER_DAY]
    rest = [(x, c) for x, c in lin.items() if c != MS_PER_DAY]
    if len(days) == 1 and len(rest) == 1 and rest[0][1] == 1 and k % MS_PER_DAY == 0 and small_unsigned(days[0][0]):
        r = rest[0][0]
        if r[0] == "bin" and r[1] == "Rem" and is_c(r[3]) and r[3][1] == MS_PER_DAY:
            tt = r[2]
            core = tt
            nonneg = False
            while isinstance(core, tuple) and core and core[0] == "cast" and len(core) == 4 and sym._uwiden(core[2], core[3]):
                nonneg = True
                core = core[1]
            if nonneg:
                return some(("instant", ("date", canon_base(days[0][0]), EPOCH + k // MS_PER_DAY), ("time", 0, ("dur", 1, tt))))
    raise sym.Undecided("from_timestamp_millis of an expression that is not days*86400000 + (t mod 86400000)")


CONSTS = {"chrono::naive::time::NaiveTime::MIN": ("time", 0, None)}


def m_from_ymd_opt(ev, a, t, d):
    if all(is_c(x) for x in a):
        n = days_from_ce(a[0][1], a[1][1], a[2][1])
        if n is None or not (-262000 <= a[0][1] <= 262000):
            return NONE
        return some(("date", None, n))
    raise sym.Undecided("NaiveDate::from_ymd_opt with non-constant arguments")


def m_duration(unit):
    def f(ev, a, t, d):
        return mk_dur(unit, a[0])
    return f


def m_date_add(ev, a, t, d):
    dt, du = a
    if dt[0] == "date" and du[0] == "dur" and du[1] == 86_400_000:
        base, k = affine(du[2])
        if dt[1] is not None and base is not None:
            raise sym.Undecided("date + two symbolic day counts")
        return ("date", canon_base(dt[1] if dt[1] is not None else base), dt[2] + k)
    raise sym.Undecided("NaiveDate + non-day duration")


def m_date_checked_add(ev, a, t, d):
    """A2': NaiveDate::checked_add_signed / checked_add_days(date, k days) = Some(the date k days later) whenever the day
    count is a small unsigned quantity plus a constant (then the sum is within chrono's range)"""
    dt, du = a
    if dt[0] == "date" and du[0] == "dur" and du[1] == 86_400_000:
        base, k = affine(du[2])
        if dt[1] is not None and base is not None:
            raise sym.Undecided("date + two symbolic day counts")
        b = dt[1] if dt[1] is not None else base
        if (b is None or small_unsigned(b)) and -90_000_000 < dt[2] + k < 90_000_000:
            return some(("date", canon_base(b), dt[2] + k))
    raise sym.Undecided("checked date addition of an unbounded or non-day duration")


def mk_dur(unit, x):
    """a duration of `x` units; a constant positive factor of x moves into the unit (seconds(m * 60) = minutes(m)), provided
    the product was computed in i64 (it cannot have wrapped for the 16/32-bit wire fields these accessors read)"""
    while isinstance(x, tuple) and x and x[0] == "bin" and x[1] == "Mul" and len(x) == 5 and x[4] == "i64":
        a, b = x[2], x[3]
        if sym.is_c(b) and isinstance(b[1], int) and b[1] > 0 and small_unsigned(a):
            unit, x = unit * b[1], a
        elif sym.is_c(a) and isinstance(a[1], int) and a[1] > 0 and small_unsigned(b):
            unit, x = unit * a[1], b
        else:
            break
    return ("dur", unit, x)


def m_duration_new(ev, a, t, d):
    """TimeDelta::new(secs, nanos) for the one split this code base could mean: secs = t div 1000 and nanos = (t mod 1000) *
    1_000_000 of the same unsigned millisecond count t. Then nanos < 10^9 (so the result is Some) and the duration is t ms.
    Any other argument pair is left undecided."""
    if len(a) != 2:
        return None
    secs, nanos = a[0], sym.norm_arith(a[1])
    while secs[0] == "cast" and len(secs) == 4 and sym._uwiden(secs[2], secs[3]):
        secs = secs[1]
    if not (secs[0] == "bin" and secs[1] == "Div" and sym.is_c(secs[3]) and secs[3][1] == 1000):
        raise sym.Undecided("TimeDelta::new with arguments that are not a millisecond count split into seconds and nanoseconds")
    tms, ty = secs[2], secs[4]
    while tms[0] == "cast" and len(tms) == 4 and sym._uwiden(tms[2], tms[3]):
        tms, ty = tms[1], tms[2]           # the division was done after widening: same quotient
    if ty not in ("u16", "u32", "u64"):
        raise sym.Undecided("TimeDelta::new with arguments that are not a millisecond count split into seconds and nanoseconds")
    want = sym.norm_arith(sym.binop("Mul", sym.binop("Rem", tms, sym.C(1000, ty), ty), sym.C(1_000_000, ty), ty))
    if nanos != want:
        raise sym.Undecided("TimeDelta::new with arguments that are not a millisecond count split into seconds and nanoseconds")
    return some(mk_dur(1, sym.cast(tms, ty, "i64")))


def m_pred_opt(ev, a, t, d):
    dt = a[0]
    if dt[0] == "date" and (dt[1] is None or small_unsigned(dt[1])):
        return some(("date", dt[1], dt[2] - 1))
    raise sym.Undecided("pred_opt of an unbounded date")


def m_succ_opt(ev, a, t, d):
    dt = a[0]
    if dt[0] == "date" and (dt[1] is None or small_unsigned(dt[1])):
        return some(("date", dt[1], dt[2] + 1))
    raise sym.Undecided("succ_opt of an unbounded date")


def m_days_new(ev, a, t, d):
    return ("dur", 86_400_000, a[0])


def m_time_from_secs(ev, a, t, d):
    if is_c(a[0]) and is_c(a[1]):
        if 0 <= a[0][1] < 86400 and 0 <= a[1][1] < 2_000_000_000:
            return some(("time", a[0][1] * 1000 + a[1][1] // 1_000_000, None))
        return NONE
    raise sym.Undecided("NaiveTime::from_num_seconds_from_midnight_opt with non-constant arguments")


def m_time_add(ev, a, t, d):
    tm, du = a
    if tm[0] == "time" and tm[2] is None:
        return ("time", tm[1], du)
    raise sym.Undecided("NaiveTime + duration on a non-constant time")


def m_ndt_new(ev, a, t, d):
    return ("ndt", a[0], a[1])


def m_from_naive_utc(ev, a, t, d):
    if a[0][0] == "ndt":
        return ("instant", a[0][1], a[0][2])
    raise sym.Undecided("from_naive_utc_and_offset of an unknown NaiveDateTime")


def m_timestamp_millis(ev, a, t, d):
    return ("millis", a[0])


MODELS = {
    "chrono::naive::date::NaiveDate::from_ymd_opt": m_from_ymd_opt,
    "chrono::time_delta::TimeDelta::days": m_duration(86_400_000),
    "chrono::time_delta::TimeDelta::hours": m_duration(3_600_000),
    "chrono::time_delta::TimeDelta::minutes": m_duration(60_000),
    "chrono::time_delta::TimeDelta::seconds": m_duration(1000),
    "chrono::time_delta::TimeDelta::milliseconds": m_duration(1),
    "chrono::time_delta::TimeDelta::new": m_duration_new,
    "<chrono::naive::date::NaiveDate as core::ops::arith::Add<chrono::time_delta::TimeDelta>>::add": m_date_add,
    "chrono::naive::time::NaiveTime::from_num_seconds_from_midnight_opt": m_time_from_secs,
    "<chrono::naive::time::NaiveTime as core::ops::arith::Add<chrono::time_delta::TimeDelta>>::add": m_time_add,
    "chrono::naive::datetime::NaiveDateTime::new": m_ndt_new,
    "chrono::naive::date::NaiveDate::from_num_days_from_ce_opt": m_from_num_days_from_ce_opt,
    "chrono::naive::date::NaiveDate::checked_add_signed": m_date_checked_add,
    "chrono::naive::date::NaiveDate::checked_add_days": m_date_checked_add,
    "chrono::naive::Days::new": m_days_new,
    "chrono::naive::date::NaiveDate::pred_opt": m_pred_opt,
    "chrono::naive::date::NaiveDate::succ_opt": m_succ_opt,
    "chrono::naive::time::NaiveTime::overflowing_add_signed": m_overflowing_add_signed,
    "chrono::naive::date::NaiveDate::and_time": m_and_time,
    "chrono::naive::datetime::NaiveDateTime::and_utc": m_and_utc,
    "chrono::datetime::DateTime::<chrono::offset::utc::Utc>::from_timestamp_millis": m_from_timestamp_millis,
    "chrono::datetime::DateTime::<Tz>::from_naive_utc_and_offset": m_from_naive_utc,
    "chrono::datetime::DateTime::<Tz>::timestamp_millis": m_timestamp_millis,
}


def spec_instant(mjd_i64_term, unit_ms, time_i64_term):
    """1970-01-01T00:00:00Z + (d - 1) days + t"""
    return some(("instant", ("date", canon_base(mjd_i64_term), EPOCH - 1), ("time", 0, ("dur", unit_ms, time_i64_term))))


def evaluator(prog, **kw):
    """a VN evaluator carrying the chrono axioms (call models + named constants)"""
    models = dict(MODELS)
    models.update(kw.pop("models", None) or {})
    ev = sym.Evaluator(prog, models=models, **kw)
    ev.const_models = dict(CONSTS)
    return ev
