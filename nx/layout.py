"""R-LAYOUT: a serde-derived wire struct's (name, primitive, width) sequence equals the ICD table."""
from rules.tables import layout as T


def ty_sig(ty, prog):
    """(signature string, wire byte width) of a field type under bincode fixint encoding"""
    k = ty.get("k")
    if k in ("uint", "int", "float"):
        pre = {"uint": "u", "int": "i", "float": "f"}[k]
        return "%s%d" % (pre, ty["bits"]), ty["bits"] // 8
    if k == "array" and ty.get("len") is not None:
        es, ew = ty_sig(ty["elem"], prog)
        if es is None:
            return None, None
        return "[%s;%d]" % (es, ty["len"]), ew * ty["len"]
    if k == "adt":
        adt = prog.adts.get(ty["adt"])
        if adt and len(adt["variants"]) == 1 and adt["kind"] == "Struct":
            w = 0
            for f in adt["variants"][0]["fields"]:
                s, fw = ty_sig(f["ty"], prog)
                if s is None:
                    return None, None
                w += fw
            return ty["adt"], w
    return None, None


def check_struct(chk, prog, path, want_deser=True):
    total, spec, sizeof_used = T.LAYOUTS[path]
    short = path.split("::")[-2] + "::" + path.split("::")[-1]
    adt = prog.adts.get(path)
    if adt is None:
        chk.blind("R-LAYOUT", path, "wire struct not found (renamed or removed)")
        return
    where = "%s:%s" % (adt["loc"]["file"], adt["loc"]["line"])
    fields = adt["variants"][0]["fields"]
    exp = T.rows(spec)
    chk.ob("R-LAYOUT", path, len(fields) == len(exp), "field count %d, ICD table has %d" % (len(fields), len(exp)), where, key="field-count")
    off = 0
    for i, f in enumerate(fields):
        sig, w = ty_sig(f["ty"], prog)
        if sig is None:
            chk.ob("R-LAYOUT", path, False, "field %s has a type with no fixed wire encoding (%s)" % (f["name"], f["ty"]["s"]), where, key="field:%s:type" % f["name"])
            return
        if i < len(exp):
            eoff, ename, ety = exp[i]
            ety_full = T.NESTED.get(ety, ety)
            ok = (f["name"] == ename and sig == ety_full and off == eoff)
            chk.ob("R-LAYOUT", path, ok,
                   "row %d: found %s:%s at byte %d, ICD table says %s:%s at byte %d" % (i, f["name"], sig, off, ename, ety, eoff),
                   where, key="row:%s" % ename)
        for a in f.get("attrs", []):
            if "serde" in a:
                chk.ob("R-LAYOUT", path, False, "field %s carries a serde attribute (%s) that can change its encoding" % (f["name"], a[:80]), where, key="attr:%s" % f["name"])
        off += w
    chk.ob("R-LAYOUT", path, off == total, "wire size %d bytes, ICD says %d" % (off, total), where, key="wire-size")
    for a in adt.get("attrs", []):
        if "serde" in a.lower() and "Repr" not in a:
            chk.ob("R-LAYOUT", path, False, "struct carries a serde attribute: %s" % a[:100], where, key="struct-attr")
    if want_deser:
        impls = prog.impls_of(path, "de::Deserialize")
        ok = len(impls) == 1 and impls[0]["derived"]
        chk.ob("R-LAYOUT", path, ok, "Deserialize impls: %s (must be exactly one, derived — field order then is declaration order)" %
               [(i["derived"]) for i in impls], where, key="derive")
    if want_deser:
        # what the derive actually generated: visit_seq asks the sequence for exactly one element per declared field, of that
        # field's type, in declaration order (a skipped, defaulted or flattened field shows up here, whatever attribute caused it)
        from .ir import callee_of
        vs = [f for p_, f in prog.fns.items() if p_.endswith("::visit_seq") and ("<impl serde_core::de::Deserialize<'de> for %s>" % path in p_
                                                                               or "<impl serde::de::Deserialize<'de> for %s>" % path in p_)]
        if len(vs) != 1:
            chk.ob("R-LAYOUT", path, False, "derived visit_seq bodies found for the struct: %d (one expected)" % len(vs), where, key="visit-seq")
        else:
            order = []
            for b in vs[0].rpo():
                t = vs[0].term(b)
                if t and t["t"] == "call" and callee_of(t).endswith("SeqAccess::next_element"):
                    tys = [x["d"]["s"] for x in t.get("targs", [])]
                    order.append(tys[-1] if tys else "?")
            decl = [f["ty"]["s"] for f in fields]
            chk.ob("R-LAYOUT", path, order == decl, "the derived decoder reads one element per field, in order (%d reads for %d fields)" % (len(order), len(decl)) if order == decl else
                   "the derived decoder reads %s but the struct declares %s" % (order[:40], decl[:40]), where, key="visit-seq")
    if sizeof_used:
        chk.ob("R-LAYOUT", path, adt.get("size") == total and adt.get("repr_c"),
               "size_of::<%s>() is used as a wire length: layout size %s (repr(C)=%s) must equal wire size %d" % (short, adt.get("size"), adt.get("repr_c"), total),
               where, key="size_of")


def check_option_chain(chk, prog, fn_path):
    """the deserialize helper's bincode option chain is exactly DefaultOptions::new -> with_fixint_encoding -> with_big_endian -> deserialize_from"""
    fn = prog.fn(fn_path)
    if fn is None:
        chk.blind("R-LAYOUT", fn_path, "deserialize helper not found")
        return
    seq = []
    for b in fn.rpo():
        t = fn.term(b)
        if t and t["t"] == "call" and (t.get("callee") or "").startswith("bincode::"):
            seq.append(t["callee"].split("::")[-1])
    want = ["new", "with_fixint_encoding", "with_big_endian", "deserialize_from"]
    chk.ob("R-LAYOUT", fn_path, seq == want or seq == ["new", "with_big_endian", "with_fixint_encoding", "deserialize_from"],
           "bincode option chain is %s, must be fixint + big-endian only" % seq, fn.where(), key="option-chain")
