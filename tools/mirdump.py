#!/usr/bin/env python3
"""dev tool: pretty-print the facts of functions whose path ends with the given suffix"""
import sys, json
sys.path.insert(0, '/verif')
from nx import extract, ir

def pl(p):
    s = "_%d" % p["l"]
    for e in p["p"]:
        if e == "*": s = "(*%s)" % s
        elif "f" in e: s += ".%s" % (e.get("name") or e["f"])
        elif "down" in e: s = "(%s as %s)" % (s, e.get("name"))
        elif "idx" in e: s += "[_%d]" % e["idx"]
        elif "cidx" in e: s += "[%s%d]" % ("-" if e["from_end"] else "", e["cidx"])
        elif "sub" in e: s += "[%d..%s%d]" % (e["sub"], "-" if e["from_end"] else "", e["to"])
        else: s += "<%s>" % e
    return s

def op(o):
    if o is None: return "None"
    k = o.get("k")
    if k in ("copy", "move"): return ("" if k == "copy" else "move ") + pl(o["pl"])
    if k == "const":
        if "fn" in o: return "fn " + o["pp"]
        if "int" in o: return "%s_%s" % (o.get("float", o["int"]), o["ty"])
        if "str" in o: return json.dumps(o["str"])
        return "const " + o["pp"][:80]
    return str(o)

def rv(s):
    r = s["rv"]
    if r == "use": return op(s["a"])
    if r == "ref": return "&%s %s" % (s["bk"].split()[0], pl(s["pl"]))
    if r == "bin": return "%s(%s, %s)" % (s["op"], op(s["a"]), op(s["b"]))
    if r == "un": return "%s(%s)" % (s["op"], op(s["a"]))
    if r == "cast": return "%s as %s (%s)" % (op(s["a"]), s["ty"]["s"], s["ck"])
    if r == "discr": return "discriminant(%s)" % pl(s["pl"])
    if r == "agg":
        return "%s%s(%s)" % (s.get("adt") or s.get("def") or s["ak"], "::" + s["vname"] if "vname" in s else "", ", ".join(op(o) for o in s["ops"]))
    if r == "repeat": return "[%s; %s]" % (op(s["a"]), s["n"])
    return s.get("pp", r)

def dump(fn, cleanup=False):
    print("fn", fn.path, fn.kind, fn.where(), "args=%d" % fn.arg_count)
    for i, l in enumerate(fn.locals):
        print("   let _%d: %s%s" % (i, l["ty"]["s"], "  // " + l["name"] if l.get("name") else ""))
    for u in fn.j.get("upvars", []):
        print("   upvar", u["name"], pl(u["pl"]))
    for b, blk in enumerate(fn.blocks):
        if blk["cleanup"] and not cleanup: continue
        print(" bb%d%s:" % (b, " (cleanup)" if blk["cleanup"] else ""))
        for s in blk["stmts"]:
            if s["s"] == "assign": print("    %s = %s    @%s %s" % (pl(s["dst"]), rv(s), s["loc"]["line"], s["loc"]["exp"] or ""))
            else: print("    ", s)
        t = blk["term"]
        k = t["t"]
        if k == "call":
            print("    %s = %s(%s) -> bb%s%s    @%s %s" % (pl(t["dest"]), t.get("resolved") or t.get("callee") or op(t["func"]), ", ".join(op(a) for a in t["args"]), t["target"], " [res=%s]" % t["callee"] if t.get("resolved") else "", t["loc"]["line"], t["loc"]["exp"] or ""))
        elif k == "switch":
            print("    switch %s [%s, otherwise bb%d]" % (op(t["discr"]), ", ".join("%s->bb%s" % (a, b2) for a, b2 in t["arms"]), t["otherwise"]))
        elif k == "assert":
            print("    assert(%s == %s, %s) -> bb%d" % (op(t["cond"]), t["expected"], t["msg"]["ak"], t["target"]))
        elif k == "drop":
            print("    drop(%s) -> bb%d" % (pl(t["pl"]), t["target"]))
        elif k == "yield":
            print("    yield -> bb%d" % t["target"])
        else:
            print("    %s %s" % (k, t.get("target", "")))

if __name__ == "__main__":
    d, _ = extract.extract(sys.argv[2] if len(sys.argv) > 2 else "all") if not (len(sys.argv) > 2 and sys.argv[2] == "witness") else (extract.extract_witness(), None)
    P = ir.Prog(d)
    for f in P.find_fns(sys.argv[1]) or [f for p, f in P.fns.items() if sys.argv[1] in p]:
        dump(f)
        for i, pr in enumerate(f.promoted):
            print("  -- promoted", i)
