#!/usr/bin/env python3
"""Development tool: apply each behaviour-preserving patch of seeded/refactor/ (or the ids given) to a scratch copy of
/repo and run all 20 quick checks against it (NX_REPO / NX_SCRATCH); every alarm is a false alarm to look at.
Writes seeded/refactor/RESULTS.json. Leaves /repo and the registered checks' caches untouched."""
import json, os, shutil, subprocess, sys, concurrent.futures as cf
VERIF = os.path.dirname(os.path.dirname(os.path.abspath(__file__)))
SCR = os.environ.get("NXM_DIR", "/tmp/nxm")
REPO = os.path.join(SCR, "repo")
PROPS = ["C%02d" % i for i in range(1, 21)]


def sync():
    os.makedirs(SCR, exist_ok=True)
    subprocess.run(["rsync", "-a", "--delete", "--exclude", "target", "--exclude", ".git", "/repo/", REPO + "/"], check=True)


def run_check(c):
    env = dict(os.environ, NX_REPO=REPO, NX_SCRATCH=SCR)
    p = subprocess.run([os.path.join(VERIF, "check"), c, "quick"], env=env, capture_output=True, text=True)
    lines = [l for l in p.stdout.splitlines() if l.startswith(("FAIL", "CHECKER-BLIND"))]
    return c, p.returncode, lines


def main():
    ids = sys.argv[1:] or sorted(d for d in os.listdir(os.path.join(VERIF, "seeded", "refactor")) if os.path.isdir(os.path.join(VERIF, "seeded", "refactor", d)))
    resf = os.path.join(VERIF, "seeded", "refactor", "RESULTS.json")
    res = json.load(open(resf)) if os.path.exists(resf) else {}
    for i in ids:
        sync()
        patch = os.path.join(VERIF, "seeded", "refactor", i, "patch.diff")
        p = subprocess.run(["git", "apply", patch], cwd=REPO, capture_output=True, text=True)
        if p.returncode != 0:
            print(i, "patch does not apply:", p.stderr[:200]); continue
        out = {}
        c, rc, lines = run_check("C01")     # first one extracts the facts
        out[c] = (rc, lines)
        with cf.ThreadPoolExecutor(10) as ex:
            for c, rc, lines in ex.map(run_check, PROPS[1:]):
                out[c] = (rc, lines)
        alarms = {c: {"exit": rc, "reports": lines[:6], "n": len(lines)} for c, (rc, lines) in out.items() if rc != 0}
        res[i] = {"alarms": alarms}
        print("%s: %s" % (i, ", ".join("%s(%d)" % (c, a["n"]) for c, a in sorted(alarms.items())) or "silent"), flush=True)
        with open(resf, "w") as fh:
            json.dump(res, fh, indent=1, sort_keys=True)
    sync()


if __name__ == "__main__":
    main()
