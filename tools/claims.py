claim("C04", "proof",
      "Totality of the decode crate as discharged obligations: every overflow/bounds/division Assert, every panic-family call, every unwrap/expect, every partial library function and every allocation size reachable from the nine decode entry points (through the derived serde visitors and the Debug impls used on error paths) is discharged by interval analysis over value-numbered terms; every loop is in a terminating class (finite iterator / consuming stream read under the seek discipline); the call graph is acyclic. An unclassified external callee fails closed.",
      TB + "Seek positions <= i64::MAX; bincode calls visit_seq only; read_exact on a finite source eventually fails; allocator/stack behaviour not analysed.",
      "R-PANIC/R-TERM/R-ALLOC: abstract interpretation (intervals over value-numbered MIR terms, widening) discharging every generated panic obligation", "DESIGN.md §3 C04")
claim("C06", "proof",
      "Same obligation discipline as C04 over the data crate's volume/record/chunk API and its Debug impls, including C04's scope through Record::messages and File::scan; guards in callees are carried to callers through boolean-function summaries (compressed() => len >= 6); the record-splitting loop is proved terminating as a strictly shrinking slice.",
      TB + "BzDecoder::read_to_end terminates and returns Err on corrupt input (library axiom); Seek and bincode axioms as in C04.",
      "R-PANIC/R-TERM: interval abstract interpretation with callee truth summaries; loop classification (shrinking-slice variant)", "DESIGN.md §3 C06")
