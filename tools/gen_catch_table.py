#!/usr/bin/env python3
"""Prints the catch matrix of the later waves (D, H, J) as a markdown table from seeded/RESULTS.json and each change's meta.json."""
import json, os, sys
V = os.path.dirname(os.path.dirname(os.path.abspath(__file__)))
R = json.load(open(os.path.join(V, "seeded", "RESULTS.json")))
waves = sys.argv[1:] or ["D", "H", "J"]
print("| change | property | what it does (one line) | reported by |")
print("|---|---|---|---|")
for k in sorted(R, key=lambda x: (x[0], x[1:])):
    if k[0] not in waves:
        continue
    m = json.load(open(os.path.join(V, "seeded", k, "meta.json")))
    summ = (m.get("summary") or "").replace("\n", " ").replace("|", "/")
    summ = summ[:150] + ("…" if len(summ) > 150 else "")
    own = R[k]["property"]
    det = R[k]["detected_by"]
    cells = ["**%s**" % c if c == own else c for c in det]
    if own not in det:
        cells = ["*(own check silent)*"] + cells
    print("| %s | %s | %s | %s |" % (k, own, summ, ", ".join(cells) or "—"))
