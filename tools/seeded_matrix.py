#!/usr/bin/env python3
"""Apply every seeded change (seeded/<id>/patch.diff) to the repository copy in $NX_REPO (default /repo), run every
check's quick tier, record which checks report it, and restore the tree. Writes seeded/RESULTS.json."""
import json, os, subprocess, sys, time
V = os.path.dirname(os.path.dirname(os.path.abspath(__file__)))
REPO = os.environ.get("NX_REPO") or os.environ.get("VP_RUN_REPO") or "/repo"
os.environ["NX_REPO"] = REPO
props = ["C%02d" % i for i in range(1, 21)]
ids = sys.argv[1:] or sorted(d for d in os.listdir(os.path.join(V, "seeded")) if os.path.isdir(os.path.join(V, "seeded", d)))
res_path = os.path.join(V, "seeded", "RESULTS.json")
results = json.load(open(res_path)) if os.path.exists(res_path) else {}


def sh(cmd, cwd):
    return subprocess.run(cmd, shell=True, cwd=cwd, capture_output=True, text=True)


if not os.path.exists(os.path.join(REPO, "Cargo.lock")) and os.path.exists("/repo/Cargo.lock"):
    import shutil
    shutil.copy("/repo/Cargo.lock", os.path.join(REPO, "Cargo.lock"))    # the lock file is git-ignored upstream; a snapshot of HEAD lacks it
assert sh("git diff --quiet", REPO).returncode == 0, "repository copy is dirty"
for sid in ids:
    d = os.path.join(V, "seeded", sid)
    meta = json.load(open(os.path.join(d, "meta.json")))
    rev = "-R " if meta.get("reverse") else ""
    r = sh("git apply %s%s/patch.diff" % (rev, d), REPO)
    if r.returncode != 0:
        results[sid] = {"error": "patch does not apply: " + r.stderr[-200:]}
        continue
    row = {}
    t0 = time.time()
    for p in props:
        if p == "C20" and os.environ.get("SKIP_C20") and meta.get("property") != "C20":
            continue
        c = sh("./check %s quick" % p, V)
        fails = [l[:240] for l in c.stdout.splitlines() if l.startswith("FAIL") or l.startswith("CHECKER-BLIND")]
        row[p] = {"exit": c.returncode, "reports": fails[:4], "n_reports": len(fails)}
    sh("git checkout -- .", REPO)
    results[sid] = {"property": meta.get("property"), "detected_by": [p for p, v in row.items() if v["exit"] != 0], "checks": row, "wall_s": round(time.time() - t0, 1)}
    print(sid, meta.get("property"), "->", results[sid]["detected_by"], flush=True)
    json.dump(results, open(res_path, "w"), indent=1)
assert sh("git diff --quiet", REPO).returncode == 0
