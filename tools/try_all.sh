#!/bin/sh
# usage: tools/try_all.sh [-R] <abs patch.diff>   — apply to /repo, run all 20 quick checks (parallel), restore
REV=""
if [ "$1" = "-R" ]; then REV="-R"; shift; fi
P="$1"; shift
cd /repo || exit 2
git diff --quiet || { echo "/repo dirty"; exit 2; }
git apply $REV "$P" || { echo "patch does not apply"; exit 2; }
cd /verif
OUT=$(mktemp -d)
./check C01 quick > $OUT/C01.out 2>&1; echo $? > $OUT/C01.rc
for c in C02 C03 C04 C05 C06 C07 C08 C09 C10 C11 C12 C13 C14 C15 C16 C17 C18 C19 C20; do
  ( ./check "$c" quick > $OUT/$c.out 2>&1; echo $? > $OUT/$c.rc ) &
done
wait
for c in C01 C02 C03 C04 C05 C06 C07 C08 C09 C10 C11 C12 C13 C14 C15 C16 C17 C18 C19 C20; do
  rc=$(cat $OUT/$c.rc)
  if [ "$rc" != "0" ]; then
    echo "== $c exit=$rc"; grep -E "^(FAIL|CHECKER-BLIND)" $OUT/$c.out | cut -c1-${W:-330} | head -${N:-4}; tail -1 $OUT/$c.out | cut -c1-200
  fi
done
echo "-- done: $(cat $OUT/*.rc | grep -c -v '^0$') of 20 checks alarm"
rm -rf $OUT
git -C /repo checkout -- . ; git -C /repo status --short | head -3
