#!/usr/bin/env python3
"""Confirms property-breaking changes delivered by sub-agents (/tmp/seed/<id>/{patch.diff,demo.diff,meta.json}) in a scratch
git worktree of /repo (removed afterwards): the patch applies and builds with all features, the 37 baseline tests still
pass with it, the author's demonstration FAILS with it and PASSES without it. Confirmed changes are copied to
/verif/seeded/<id>/ with the outcome recorded in meta.json (confirmed_by_me)."""
import json, os, shutil, subprocess, sys
V = os.path.dirname(os.path.dirname(os.path.abspath(__file__)))
WT = "/tmp/wt/confirm_s"
SRC = os.environ.get("SEED_SRC", "/tmp/seed")


def sh(cmd, cwd=WT):
    return subprocess.run(cmd, shell=True, cwd=cwd, capture_output=True, text=True)


def clean():
    sh("git checkout -- . && git clean -fdq -e target -e Cargo.lock")


def tests_ok():
    r = sh("cargo test --workspace --no-fail-fast --offline 2>&1")
    passed = sum(int(l.split("ok. ")[1].split(" passed")[0]) for l in r.stdout.splitlines() if l.startswith("test result: ok."))
    return passed, ("FAILED" in r.stdout or "error[" in r.stdout)


def main():
    ids = sys.argv[1:]
    if not os.path.isdir(WT):
        os.makedirs(os.path.dirname(WT), exist_ok=True)
        subprocess.run(["git", "-C", "/repo", "worktree", "add", "--detach", WT, "HEAD"], check=True, capture_output=True)
        subprocess.run(["cp", "/repo/Cargo.lock", WT + "/Cargo.lock"], check=True)
    try:
        for sid in ids:
            d = os.path.join(SRC, sid)
            meta = json.load(open(os.path.join(d, "meta.json")))
            demo = meta.get("demo_cmd", "")
            out = {}
            clean()
            out["patch_applies"] = sh("git apply %s/patch.diff" % d).returncode == 0
            out["builds_all_features"] = sh("cargo build --workspace --all-features --offline 2>&1").returncode == 0
            p, f = tests_ok()
            out["baseline_passed"], out["baseline_failed"] = p, f
            out["demo_applies_patched"] = sh("git apply %s/demo.diff" % d).returncode == 0
            r = sh("timeout 600 " + demo + " 2>&1")
            out["demo_fails_with_patch"] = r.returncode != 0
            sh("git apply -R %s/patch.diff" % d)
            r = sh("timeout 600 " + demo + " 2>&1")
            out["demo_passes_clean"] = r.returncode == 0
            ok = bool(out["patch_applies"] and out["builds_all_features"] and p == 37 and not f and out["demo_fails_with_patch"] and out["demo_passes_clean"])
            out["how"] = "tools/confirm_seeded.py in a scratch worktree of /repo HEAD: patch, all-features build, 37 baseline tests, demo (fails), patch reverted, demo (passes)"
            meta["id"] = sid
            meta["confirmed_by_me"] = out
            print(sid, "CONFIRMED" if ok else "NOT-CONFIRMED", {k: v for k, v in out.items() if v is not True and k != "how"}, flush=True)
            if ok:
                dst = os.path.join(V, "seeded", sid)
                os.makedirs(dst, exist_ok=True)
                for fnm in ("patch.diff", "demo.diff"):
                    shutil.copy(os.path.join(d, fnm), os.path.join(dst, fnm))
                json.dump(meta, open(os.path.join(dst, "meta.json"), "w"), indent=1)
    finally:
        subprocess.run(["git", "-C", "/repo", "worktree", "remove", "--force", WT], capture_output=True)
        subprocess.run(["git", "-C", "/repo", "worktree", "prune"], capture_output=True)


if __name__ == "__main__":
    main()
