#!/usr/bin/env python3
"""regenerates MANIFEST.json from the per-property table below (claimed checks) + not_applicable for the rest"""
import json, os
V = os.path.dirname(os.path.dirname(os.path.abspath(__file__)))
props = [json.loads(l) for l in open(os.path.join(V, "properties.jsonl"))]

CLAIMED = {}
def claim(pid, category, text, note, technique, ref):
    CLAIMED[pid] = dict(category=category, text=text, note=note, technique=technique, ref=ref)

TB = "Trusted: rustc nightly MIR of the same sources the stable build compiles; library tables in rules/tables/lib.py; "

claim("C10", "other",
      "Decides the header's structure and closed forms: ICD table II layout row by row (repr(C) size 28 = wire size), the type-code table (frozen ICD codes + repr(u8) discriminants), the six channel codes, segmented <=> size != 0xFFFF, the size rule and agreement of plain/unit-typed accessors as equality of canonical piecewise terms over all field values, and absence of any undischarged panic source in the accessors. Numeric results are decided as closed forms, not evaluated.",
      TB + "serde_derive field order = declaration order; bincode fixint big-endian; uom Quantity::new modelled as a tagged value.",
      "R-LAYOUT table check + value numbering to canonical piecewise terms (spec-term equality) + interval-discharged panic obligations", "DESIGN.md §3 C10")
claim("C20", "exploration",
      "The property is a static one ('compiles' is the type checker's verdict). thorough type-checks every distinct resolved feature set of every crate's feature powerset (exhaustive: 8+4+306+8 resolved sets = all 8+4+1024+8 selections) plus enabled examples; quick checks a min and max representative of each cfg-equivalence class plus singletons.",
      "Trusted: cargo feature resolution, rustc 1.95 type checker. Assumes equal resolved feature sets compile alike; quick additionally assumes configurations agreeing on all cfg-mentioned features compile alike.",
      "exhaustive type checking of the feature matrix (compiler as decision procedure) + check-cfg lint", "DESIGN.md §3 C20")

# further claims are appended by later sections of this file
exec(open(os.path.join(V, "tools", "claims.py")).read()) if os.path.exists(os.path.join(V, "tools", "claims.py")) else None

checks = []
for p in props:
    pid = p["id"]
    if pid not in CLAIMED:
        continue
    c = CLAIMED[pid]
    checks.append({
        "property_id": pid, "quick_cmd": "./check %s quick" % pid, "thorough_cmd": "./check %s thorough" % pid,
        "evidence_file": "evidence/%s.json" % pid, "replay_cmd_template": "./check %s --replay {path}" % pid,
        "engine": "nxfeat" if pid == "C20" else "nxrules",
        "level_claimed": {"category": c["category"], "text": c["text"], "design_ref": c["ref"]},
        "level_note": c["note"], "technique": c["technique"]})
m = {
    "version": 1, "setup_cmd": "./setup.sh",
    "hooks": {"guard": "nexrad_verif", "enable": "none - static analysis reads /repo's sources through a compiler driver; no source hooks exist",
              "baseline_off_cmd": "cd /repo && cargo test --workspace --no-fail-fast --offline", "source_commits": [], "add_only": True},
    "engines": [
        {"name": "nxfacts", "path": "driver/", "serves_properties": [c["property_id"] for c in checks if c["property_id"] != "C20"],
         "kind_free_text": "rustc_private compiler driver (nightly) injected via RUSTC_WORKSPACE_WRAPPER into /repo's own cargo check; dumps ADT layouts, impls, constants and pre-borrowck MIR of every body (incl. async coroutines) as JSON facts"},
        {"name": "nxrules", "path": "nx/ rules/", "serves_properties": [c["property_id"] for c in checks if c["property_id"] != "C20"],
         "kind_free_text": "python3 (stdlib) analyses over the facts: CFG/dominators, interval analysis over value-numbered terms, typestate, symbolic value numbering to canonical terms, layout/decision-table comparison against oracle tables"},
        {"name": "nxfeat", "path": "nx/feat.py", "serves_properties": ["C20"], "kind_free_text": "feature-matrix enumerator; each configuration is type-checked by cargo check on the stable toolchain"}],
    "checks": checks,
    "notes": "Static analysis only: no registered command runs nexrad code or its tests. Fix commits in /repo (unguarded, 'fix:'): see known_findings.json.",
    "not_applicable": [{"property_id": p["id"], "reason": "check under construction in this session (static rules being implemented; see DESIGN.md §3)"} for p in props if p["id"] not in CLAIMED],
}
json.dump(m, open(os.path.join(V, "MANIFEST.json"), "w"), indent=1)
print("claimed:", sorted(CLAIMED))
