#!/bin/sh
# run all 20 checks (tier $1, default quick) on the current /repo tree in parallel; print non-zero exits
T=${1:-quick}
cd /verif
OUT=$(mktemp -d)
./check C01 $T > $OUT/C01.out 2>&1; echo $? > $OUT/C01.rc
for c in C02 C03 C04 C05 C06 C07 C08 C09 C10 C11 C12 C13 C14 C15 C16 C17 C18 C19 C20; do
  ( ./check "$c" $T > $OUT/$c.out 2>&1; echo $? > $OUT/$c.rc ) &
done
wait
for c in C01 C02 C03 C04 C05 C06 C07 C08 C09 C10 C11 C12 C13 C14 C15 C16 C17 C18 C19 C20; do
  rc=$(cat $OUT/$c.rc)
  if [ "$rc" != "0" ]; then
    echo "== $c exit=$rc"; grep -E "^(FAIL|CHECKER-BLIND)" $OUT/$c.out | cut -c1-330 | head -4
  fi
  tail -1 $OUT/$c.out | cut -c1-160
done
rm -rf $OUT
