#!/usr/bin/env python3
"""Development tool: apply each stored change to a scratch copy of /repo and run all 20 quick checks against it
(NX_REPO / NX_SCRATCH; /repo and the registered checks' caches stay untouched).
  tools/matrix.py seeded   [ids..]   property-breaking changes (seeded/<id>/): writes seeded/RESULTS.json (detected_by)
  tools/matrix.py refactor [ids..]   behaviour-preserving changes (seeded/refactor/<id>/): every alarm is a false alarm
  tools/matrix.py micro    [ids..]   small behaviour-preserving edits (seeded/micro/<id>/): likewise"""
import json, os, subprocess, sys, time, concurrent.futures as cf
VERIF = os.path.dirname(os.path.dirname(os.path.abspath(__file__)))
SCR = os.environ.get("NXM_DIR", "/tmp/nxm")
REPO = os.path.join(SCR, "repo")
PROPS = ["C%02d" % i for i in range(1, 21)]


def sync():
    os.makedirs(SCR, exist_ok=True)
    subprocess.run(["rsync", "-a", "--delete", "--exclude", "target", "--exclude", ".git", "/repo/", REPO + "/"], check=True)


def run_check(c):
    env = dict(os.environ, NX_REPO=REPO, NX_SCRATCH=SCR)
    p = subprocess.run([os.path.join(VERIF, "check"), c, "quick"], env=env, capture_output=True, text=True)
    lines = [l[:300] for l in p.stdout.splitlines() if l.startswith(("FAIL", "CHECKER-BLIND"))]
    return c, p.returncode, lines


def main():
    kind = sys.argv[1]
    base = os.path.join(VERIF, "seeded") if kind == "seeded" else os.path.join(VERIF, "seeded", kind)      # refactor | micro
    ids = sys.argv[2:] or sorted(d for d in os.listdir(base) if os.path.isfile(os.path.join(base, d, "patch.diff")))
    resf = os.environ.get("NXM_RESULTS") or os.path.join(base, "RESULTS.json")     # NXM_RESULTS: a partial result file (parallel runs, merged afterwards)
    res = json.load(open(resf)) if os.path.exists(resf) else {}
    for i in ids:
        sync()
        meta = json.load(open(os.path.join(base, i, "meta.json"))) if os.path.exists(os.path.join(base, i, "meta.json")) else {}
        cmd = ["git", "apply"] + (["-R"] if meta.get("reverse") else []) + [os.path.join(base, i, "patch.diff")]
        p = subprocess.run(cmd, cwd=REPO, capture_output=True, text=True)
        if p.returncode != 0:
            print(i, "patch does not apply:", p.stderr[:200], flush=True)
            continue
        t0 = time.time()
        out = {}
        c, rc, lines = run_check("C01")     # the first one extracts the facts
        out[c] = (rc, lines)
        with cf.ThreadPoolExecutor(10) as ex:
            for c, rc, lines in ex.map(run_check, PROPS[1:]):
                out[c] = (rc, lines)
        alarms = {c: {"exit": rc, "reports": lines[:4], "n_reports": len(lines)} for c, (rc, lines) in sorted(out.items()) if rc != 0}
        if kind == "seeded":
            res[i] = {"property": meta.get("property"), "detected_by": sorted(alarms), "reports": alarms, "wall_s": round(time.time() - t0, 1)}
            own = meta.get("property") in alarms
            print("%s (%s): %s%s" % (i, meta.get("property"), ", ".join(sorted(alarms)) or "NOT DETECTED", "" if own else "   <-- own check silent"), flush=True)
        else:
            res[i] = {"alarms": alarms}
            print("%s: %s" % (i, ", ".join("%s(%d)" % (c, a["n_reports"]) for c, a in sorted(alarms.items())) or "silent"), flush=True)
        with open(resf, "w") as fh:
            json.dump(res, fh, indent=1, sort_keys=True)
    sync()


if __name__ == "__main__":
    main()
