#!/bin/sh
# usage: tools/scratch.sh <abs patch.diff | -> <command...>   — run a command against a scratch copy of /repo with a patch applied
# (development only; /repo and the registered checks' caches stay untouched). NXM_DIR selects the scratch dir (default /tmp/nxm2).
D=${NXM_DIR:-/tmp/nxm2}
P="$1"; shift
mkdir -p $D
rsync -a --delete --exclude target --exclude .git /repo/ $D/repo/
R=""
case "$P" in -R:*) R="-R"; P="${P#-R:}";; esac
if [ "$P" != "-" ]; then (cd $D/repo && git apply $R "$P") || { echo "patch does not apply"; exit 2; }; fi
NX_REPO=$D/repo NX_SCRATCH=$D "$@"
