#!/usr/bin/env python3
"""Regenerates rules/tables/vocab.txt: the function paths of the workspace as of the tree the rules were written
against. Functions outside this list are 'helpers the rules have no name for' and are analysed inlined into their
callers (nx/ir.py inline_calls) — a precision device, never a verdict. Run only when the rules are re-anchored."""
import os, sys
sys.path.insert(0, os.path.dirname(os.path.dirname(os.path.abspath(__file__))))
from nx import extract, ir
paths = set()
for cfg in ("all", "default"):
    d, _ = extract.extract(cfg)
    prog = ir.Prog(d)
    paths |= {p for p, f in prog.fns.items() if f.kind in ("Fn", "AssocFn")}
out = os.path.join(os.path.dirname(os.path.dirname(os.path.abspath(__file__))), "rules", "tables", "vocab.txt")
with open(out, "w") as fh:
    fh.write("\n".join(sorted(paths)) + "\n")
print(len(paths), "function paths ->", out)
