#!/usr/bin/env python3
"""Regenerates rules/tables/vocab.txt: the function paths of the workspace as of the tree the rules were written
against. Functions outside this list are 'helpers the rules have no name for' and are analysed inlined into their
callers (nx/ir.py inline_calls) — a precision device, never a verdict. Run only when the rules are re-anchored."""
import os, sys
sys.path.insert(0, os.path.dirname(os.path.dirname(os.path.abspath(__file__))))
from nx import extract, ir
paths = {}
for cfg in ("all", "default"):
    d, _ = extract.extract(cfg)
    prog = ir.Prog(d)
    for p, f in prog.fns.items():
        if f.kind in ("Fn", "AssocFn"):
            paths[p] = ir.signature(f)
out = os.path.join(os.path.dirname(os.path.dirname(os.path.abspath(__file__))), "rules", "tables", "vocab.txt")
with open(out, "w") as fh:
    fh.write("\n".join("%s\t%s" % (p, paths[p]) for p in sorted(paths)) + "\n")
print(len(paths), "function paths ->", out)
