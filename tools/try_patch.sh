#!/bin/sh
# usage: tools/try_patch.sh [-R] <patch.diff> <Cnn> [Cnn...]   — apply to /repo, run quick checks, restore
REV=""
if [ "$1" = "-R" ]; then REV="-R"; shift; fi
P="$1"; shift
cd /repo || exit 2
git diff --quiet || { echo "/repo dirty"; exit 2; }
git apply $REV "$P" || { echo "patch does not apply"; exit 2; }
cd /verif
for c in "$@"; do
  ./check "$c" quick > /tmp/try_$c.out 2>&1
  rc=$?
  echo "== $c exit=$rc"; grep -E "^(FAIL|CHECKER-BLIND|KNOWN)" /tmp/try_$c.out | cut -c1-400 | head -8; tail -1 /tmp/try_$c.out
done
git -C /repo checkout -- . ; git -C /repo status --short | head -3
