#!/usr/bin/env python3
"""Confirms each behaviour-preserving change of seeded/refactor/ in a scratch git worktree of /repo (removed afterwards):
the patch applies and builds with all features, the 37 baseline tests pass with it, and the author's demonstration
test passes both with and without the patch. Records the outcome in the change's meta.json (confirmed_by_me)."""
import json, os, subprocess, sys, glob
V = os.path.dirname(os.path.dirname(os.path.abspath(__file__)))
WT = "/tmp/wt/confirm_r"


def sh(cmd, cwd=WT):
    return subprocess.run(cmd, shell=True, cwd=cwd, capture_output=True, text=True)


def clean():
    sh("git checkout -- . && git clean -fdq -e target -e Cargo.lock")


def tests_ok():
    r = sh("cargo test --workspace --no-fail-fast --offline 2>&1")
    passed = sum(int(l.split("ok. ")[1].split(" passed")[0]) for l in r.stdout.splitlines() if l.startswith("test result: ok."))
    failed = "FAILED" in r.stdout or "error[" in r.stdout
    return passed, failed


def main():
    ids = sys.argv[1:] or sorted(os.path.basename(os.path.dirname(p)) for p in glob.glob(os.path.join(V, "seeded", "refactor", "*", "patch.diff")))
    if not os.path.isdir(WT):
        os.makedirs(os.path.dirname(WT), exist_ok=True)
        subprocess.run(["git", "-C", "/repo", "worktree", "add", "--detach", WT, "HEAD"], check=True, capture_output=True)
        subprocess.run(["cp", "/repo/Cargo.lock", WT + "/Cargo.lock"], check=True)
    try:
        for sid in ids:
            d = os.path.join(V, "seeded", "refactor", sid)
            meta = json.load(open(os.path.join(d, "meta.json")))
            demo = meta.get("demo_cmd") or meta.get("demo") or ""
            out = {}
            clean()
            out["demo_applies"] = sh("git apply %s/demo.diff" % d).returncode == 0
            r = sh(demo + " 2>&1") if demo else None
            out["demo_passes_clean"] = bool(r and r.returncode == 0)
            out["patch_applies"] = sh("git apply %s/patch.diff" % d).returncode == 0
            out["builds_all_features"] = sh("cargo build --workspace --all-features --offline 2>&1").returncode == 0
            r = sh(demo + " 2>&1") if demo else None
            out["demo_passes_patched"] = bool(r and r.returncode == 0)
            sh("git apply -R %s/demo.diff" % d)
            p, f = tests_ok()
            out["baseline_passed"], out["baseline_failed"] = p, f
            out["confirmed"] = bool(out["patch_applies"] and out["builds_all_features"] and p == 37 and not f and out["demo_passes_clean"] and out["demo_passes_patched"])
            meta["confirmed_by_me"] = dict(out, how="tools/confirm_refactor.py in a scratch worktree of /repo HEAD: demo on the clean tree, patch, all-features build, demo again, 37 baseline tests without the demo")
            json.dump(meta, open(os.path.join(d, "meta.json"), "w"), indent=1)
            print(sid, "CONFIRMED" if out["confirmed"] else "NOT-CONFIRMED", {k: v for k, v in out.items() if v is not True and k != "confirmed"}, flush=True)
    finally:
        subprocess.run(["git", "-C", "/repo", "worktree", "remove", "--force", WT], capture_output=True)
        subprocess.run(["git", "-C", "/repo", "worktree", "prune"], capture_output=True)


if __name__ == "__main__":
    main()
