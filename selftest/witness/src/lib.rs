//! Vacuity-guard witness crate: one deliberately *violating* instance per rule family.
//! The checks analyse this crate on every run and fail closed unless each rule fires here,
//! so a rule that silently stopped matching anything cannot pass forever. Never executed.
#![allow(dead_code, unused)]

pub mod lin;
pub mod panics;
pub mod terms;
