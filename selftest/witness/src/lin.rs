//! R-LIN witnesses: payload values that are lost, duplicated or reordered.
pub struct Payload(pub u8);
pub struct Group(pub u8, pub Vec<Payload>);

/// LIN-1: the pending run is dropped at the end of input (the F1 shape).
pub fn lose_last(items: Vec<Payload>) -> Vec<Group> {
    let mut groups = Vec::new();
    let mut key = None;
    let mut pending = Vec::new();
    for item in items {
        if let Some(k) = key {
            if k != item.0 {
                groups.push(Group(k, pending));
                pending = Vec::new();
            }
        }
        key = Some(item.0);
        pending.push(item);
    }
    groups
}

/// the repaired shape: must verify
pub fn keep_all(items: Vec<Payload>) -> Vec<Group> {
    let mut groups = Vec::new();
    let mut key = None;
    let mut pending = Vec::new();
    for item in items {
        if let Some(k) = key {
            if k != item.0 {
                groups.push(Group(k, pending));
                pending = Vec::new();
            }
        }
        key = Some(item.0);
        pending.push(item);
    }
    if let Some(k) = key {
        groups.push(Group(k, pending));
    }
    groups
}

/// LIN-3: an order-changing call on a payload container
pub fn reorder(mut items: Vec<Payload>) -> Vec<Payload> {
    items.reverse();
    items
}
