//! R-PANIC witnesses.
pub fn unguarded_index(data: &[u8]) -> u8 {
    data[3]
}
pub fn guarded_index(data: &[u8]) -> u8 {
    if data.len() >= 4 {
        data[3]
    } else {
        0
    }
}
pub fn unguarded_range(data: &[u8]) -> &[u8] {
    &data[4..6]
}
pub fn unwrap_it(x: Option<u8>) -> u8 {
    x.unwrap()
}
pub fn mul_overflow(x: u16) -> u16 {
    x * 2
}
pub fn mul_ok(x: u16) -> u32 {
    x as u32 * 2
}
pub fn explicit_panic(x: u8) -> u8 {
    match x {
        0 => 1,
        _ => panic!("bad {}", x),
    }
}
