//! VN / R-TABLE witnesses: a wrong mask, a wrong table arm.
pub struct W {
    pub word: u16,
    pub a: u16,
    pub b: u16,
}
impl W {
    /// documented as bits 1..3; the mask is off by one bit
    pub fn wrong_mask(&self) -> u8 {
        ((self.word & 0x001E) >> 1) as u8
    }
    pub fn right_mask(&self) -> u8 {
        ((self.word & 0x000E) >> 1) as u8
    }
    pub fn bit4(&self) -> bool {
        (self.word >> 4) & 1 == 1
    }
    /// accessor named `a` returning field `b`
    pub fn a(&self) -> u16 {
        self.b
    }
}
pub fn table(code: u8) -> Option<u8> {
    match code {
        1 => Some(1),
        2 => Some(3),
        4..=6 => Some(code),
        _ => None,
    }
}

/// reference template for the chunk-name format (R-TEMPLATE oracle: what `{}-{:03}-{}` compiles to with this toolchain)
pub fn chunk_name_template(prefix: &str, sequence: usize, letter: &str) -> String {
    format!("{}-{:03}-{}", prefix, sequence, letter)
}

/// reference templates for the S3 keys and URLs
pub fn key_templates(a: &str, b: &str, c: &str, n: usize) -> [String; 6] {
    [
        format!("{}/{}/{}", a, b, c),
        format!("{}/{}", a, b),
        format!("{}/{}/", a, b),
        format!("https://{}.s3.amazonaws.com/{}", a, b),
        format!("https://{}.s3.amazonaws.com?list-type=2&prefix={}", a, b),
        format!("&max-keys={}", n),
    ]
}
