//! VN / R-TABLE witnesses: a wrong mask, a wrong table arm.
pub struct W {
    pub word: u16,
    pub a: u16,
    pub b: u16,
}
impl W {
    /// documented as bits 1..3; the mask is off by one bit
    pub fn wrong_mask(&self) -> u8 {
        ((self.word & 0x001E) >> 1) as u8
    }
    pub fn right_mask(&self) -> u8 {
        ((self.word & 0x000E) >> 1) as u8
    }
    pub fn bit4(&self) -> bool {
        (self.word >> 4) & 1 == 1
    }
    /// accessor named `a` returning field `b`
    pub fn a(&self) -> u16 {
        self.b
    }
}
pub fn table(code: u8) -> Option<u8> {
    match code {
        1 => Some(1),
        2 => Some(3),
        4..=6 => Some(code),
        _ => None,
    }
}
